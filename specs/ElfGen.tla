-------------------------------- MODULE ElfGen --------------------------------
(***************************************************************************)
(* C14, ELF: generator of abstract images (state machine over the parts of *)
(* an image), the design check  Report(Encode(A)) = Expected(A)  (M), and   *)
(* the emission of behaviours for the replayer (G).                         *)
(* Structure (class, byte order, number and kind of program headers /       *)
(* sections / symbols, table order, entry-size padding) is chosen           *)
(* nondeterministically (exhaustive under BFS, random under -simulate);     *)
(* field values are drawn from a 16-bit pseudo-random stream seeded by the  *)
(* initial state, so every run is reproducible from its seed.               *)
(***************************************************************************)
EXTENDS Elf, TLC, Json

CONSTANTS Classes, Orders, Seeds, MaxPh, MaxUser, MaxSym, Machines, Types, PTypes, Layouts, Pads, SymChoices, Kinds

VARIABLES st, A, rnd, wantsym, opts
vars == <<st, A, rnd, wantsym, opts>>

Rb(x, k)    == RndByte(LcgAt(x, k))
Rd(x, k, w) == Tup([i \in 1..w |-> Rb(x, k + i)])
Adv(x)      == LcgAt(x, 41)

\* texts
T_text == <<46,116,101,120,116>>        T_data == <<46,100,97,116,97>>     T_bss == <<46,98,115,115>>
T_rodata == <<46,114,111,100,97,116,97>> T_init == <<46,105,110,105,116>>  T_note == <<46,110,111,116,101,46,120>>
T_x == <<120>>
T_shstrtab == <<46,115,104,115,116,114,116,97,98>>
T_symtab == <<46,115,121,109,116,97,98>>  T_strtab == <<46,115,116,114,116,97,98>>
UserNames == << T_text, T_data, T_rodata, T_init, T_x, T_note >>
BssNames  == << T_bss, <<46,116,98,115,115>>, <<46,115,98,115,115>>, <<46,108,98,115,115>> >>
SymNamePool == << <<109,97,105,110>>, <<95,115,116,97,114,116>>, <<102,111,111>>, <<98,97,114,95,98,97,122>>, <<118>>, <<>> >>

\* an address base: no carry out of the third byte for the offsets used below
BaseAddr(cls, x) ==
  LET hi4 == << 8, 0, 192, 255 >>[1 + (Rb(x, 1) % 4)]
      lo  == << 0, 0, (Rb(x, 2) % 112), hi4 >>
      up  == << <<0,0,0,0>>, <<85,85,0,0>>, <<255,255,255,255>>, <<1,0,0,128>> >>[1 + (Rb(x, 3) % 4)]
  IN IF cls = 64 THEN lo \o up ELSE lo

Empty ==
  [cls |-> 32, ord |-> "LE", ver |-> 1, osabi |-> 0, abiver |-> 0, type |-> <<2, 0>>, machine |-> <<3, 0>>,
   version |-> <<1, 0, 0, 0>>, entry |-> <<0, 0, 0, 0>>, flags |-> <<0, 0, 0, 0>>, base |-> <<0, 0, 0, 0>>,
   ph |-> <<>>, phpos |-> 0, phent |-> 0, sec |-> <<>>, shpos |-> 0, shent |-> 0, shstrndx |-> 0,
   sym |-> <<>>, size |-> 0, fill |-> 0]

Init == /\ st = "hdr" /\ wantsym = FALSE /\ opts = [named |-> FALSE, first |-> FALSE, nuser |-> 0, perm |-> 1, pp |-> 0, sp |-> 0]
        /\ rnd \in Seeds
        /\ \E c \in Classes, o \in Orders : A = [Empty EXCEPT !.cls = c, !.ord = o]

Header == /\ st = "hdr"
          /\ \E m \in Machines, t \in Types :
               LET b == BaseAddr(A.cls, rnd) IN
               A' = [A EXCEPT !.machine = Digits(m, 2), !.type = Digits(t, 2), !.base = b,
                              !.entry = AddN(b, 256 * Rb(rnd, 4) + Rb(rnd, 5)),
                              !.flags = Rd(rnd, 5, 4), !.osabi = <<0, 0, 3, 97, 255>>[1 + (Rb(rnd, 10) % 5)],
                              !.abiver = (Rb(rnd, 11) % 3), !.fill = LcgAt(rnd, 12)]
          /\ \E p \in Layouts, pp \in Pads, sp \in Pads : opts' = [opts EXCEPT !.perm = p, !.pp = pp, !.sp = sp]
          /\ rnd' = Adv(rnd) /\ st' = "ph" /\ UNCHANGED wantsym

\* program header k: loadable segments are disjoint in memory (64 KiB apart, each < 4 KiB + 4 KiB)
NewPhdr(t, k) ==
  LET aw == AW(A.cls)
      va == AddN(A.base, k * 65536 + 16 * Rb(rnd, 1) + (Rb(rnd, 2) % 16))
      fs == IF (Rb(rnd, 3) % 5) = 0 THEN 0 ELSE 1 + 16 * (Rb(rnd, 4) % 200) + (Rb(rnd, 5) % 16)
      ms == IF (Rb(rnd, 6) % 2) = 0 THEN fs ELSE fs + 1 + 8 * Rb(rnd, 7)
  IN [p_type |-> Digits(t, 4), p_flags |-> <<1 + (Rb(rnd, 8) % 7), 0, 0, 0>>,
      p_offset |-> Digits(256 * (Rb(rnd, 9) % 64) + Rb(rnd, 10), aw), p_vaddr |-> va,
      p_paddr |-> IF (Rb(rnd, 11) % 2) = 0 THEN va ELSE Rd(rnd, 11, aw),
      p_filesz |-> Digits(fs, aw), p_memsz |-> Digits(ms, aw),
      p_align |-> Digits(<<0, 1, 4, 16, 4096, 65536>>[1 + (Rb(rnd, 20) % 6)], aw)]
AddPh == /\ st = "ph" /\ Len(A.ph) < MaxPh
         /\ \E t \in PTypes : A' = [A EXCEPT !.ph = Append(@, NewPhdr(t, Len(A.ph) + 1))]
         /\ rnd' = Adv(rnd) /\ UNCHANGED <<st, wantsym, opts>>
EndPh == /\ st = "ph" /\ st' = "sec" /\ UNCHANGED <<A, rnd, wantsym, opts>>

\* sections
SecRec(kind, name, type, flags, addr, link, info, align, entsize, data, nbsize) ==
  LET aw == AW(A.cls) IN
  [kind |-> kind, name |-> name, type |-> Digits(type, 4), flags |-> Digits(flags, aw), addr |-> addr,
   link |-> Digits(link, 4), info |-> Digits(info, 4), addralign |-> Digits(align, aw),
   entsize |-> Digits(entsize, aw), pos |-> 0, data |-> data, nbsize |-> nbsize]
ZeroA == Zeros(AW(A.cls))
NullSec  == SecRec("null", <<>>, 0, 0, ZeroA, 0, 0, 0, 0, <<>>, ZeroA)
ShstrSec == SecRec("shstr", T_shstrtab, 3, 0, ZeroA, 0, 0, 1, 0, <<>>, ZeroA)
UserSec(i, kind) ==
  LET x    == LcgAt(rnd, 3)
      addr == AddN(A.base, i * 8192 + 16 * Rb(x, 1) + (Rb(x, 2) % 16))
  IN IF kind = "nobits"
     THEN SecRec("nobits", BssNames[1 + (i % 4)], 8, 3, addr, 0, 0, 4, 0, <<>>,
                 Digits(1 + 16 * Rb(x, 3) + (Rb(x, 4) % 16), AW(A.cls)))
     ELSE SecRec("bits", UserNames[1 + ((i + A.fill) % 6)],
                 IF kind = "note" THEN 7 ELSE IF kind = "initarr" THEN 14 ELSE 1,
                 IF kind = "plain" THEN 0 ELSE <<2, 6, 3, 50>>[1 + (Rb(x, 5) % 4)],
                 IF kind = "plain" THEN ZeroA ELSE addr, 0, 0, <<1, 4, 16>>[1 + (Rb(x, 6) % 3)], 0,
                 Rd(x, 6, 1 + (Rb(x, 3) % 40)), ZeroA)
UserKinds == Kinds   \* subset of {"bits", "nobits", "note", "initarr", "plain"}; "plain": PROGBITS without SHF_ALLOC (e.g. .comment)

\* the section table: none at all, or NULL [.shstrtab] user sections [.symtab .strtab] [.shstrtab]
SecStart ==
  /\ st = "sec"
  /\ \/ A' = A /\ wantsym' = FALSE /\ opts' = opts /\ st' = "lay"
     \/ \E named \in BOOLEAN, first \in BOOLEAN, ws \in SymChoices :
          /\ A' = [A EXCEPT !.sec = <<NullSec>> \o (IF named /\ first THEN <<ShstrSec>> ELSE <<>>)]
          /\ opts' = [opts EXCEPT !.named = named, !.first = first] /\ wantsym' = ws /\ st' = "user"
  /\ rnd' = Adv(rnd)
AddUser == /\ st = "user" /\ opts.nuser < MaxUser
           /\ \E kind \in UserKinds : A' = [A EXCEPT !.sec = Append(@, UserSec(Len(A.sec), kind))]
           /\ opts' = [opts EXCEPT !.nuser = @ + 1]
           /\ rnd' = Adv(rnd) /\ UNCHANGED <<st, wantsym>>
EndUser ==
  /\ st = "user"
  /\ LET nsym == Len(A.sec) + 1
         symp == IF wantsym
                 THEN << SecRec("symtab", T_symtab, 2, 0, ZeroA, nsym, 1 + (Rb(rnd, 30) % 3), AW(A.cls), SymSize(A.cls), <<>>, ZeroA),
                         SecRec("strtab", T_strtab, 3, 0, ZeroA, 0, 0, 1, 0, <<>>, ZeroA) >>
                 ELSE <<>>
         all  == A.sec \o symp \o (IF opts.named /\ ~opts.first THEN <<ShstrSec>> ELSE <<>>)
     IN A' = [A EXCEPT !.sec = all,
                       !.shstrndx = IF ~opts.named THEN 0 ELSE IF opts.first THEN 1 ELSE Len(all) - 1]
  /\ rnd' = Adv(rnd) /\ st' = "sym" /\ UNCHANGED <<wantsym, opts>>

NewSym(k, ty) ==
  LET nsec == Len(A.sec) IN
  [name |-> SymNamePool[1 + ((k - 1 + Rb(rnd, 1)) % 6)],
   value |-> IF (Rb(rnd, 2) % 4) = 0 THEN ZeroA ELSE AddN(A.base, 256 * Rb(rnd, 3) + Rb(rnd, 4)),
   size |-> Digits(Rb(rnd, 5) % 64, AW(A.cls)),
   info |-> 16 * (Rb(rnd, 6) % 3) + ty, other |-> <<0, 2, 3>>[1 + (Rb(rnd, 7) % 3)],
   shndx |-> IF (Rb(rnd, 8) % 4) = 0 THEN <<241, 255>> ELSE Digits(Rb(rnd, 9) % nsec, 2)]
AddSym == /\ st = "sym" /\ wantsym /\ Len(A.sym) < MaxSym
          /\ \E ty \in {0, 1, 2} : A' = [A EXCEPT !.sym = Append(@, NewSym(Len(A.sym) + 1, ty))]
          /\ rnd' = Adv(rnd) /\ UNCHANGED <<st, wantsym, opts>>
EndSym == /\ st = "sym" /\ st' = "lay" /\ UNCHANGED <<A, rnd, wantsym, opts>>

\* layout: the order of the program header table (P), the section contents (B) and the section header
\* table (S) after the ELF header, with pseudo-random gaps; the entry sizes may exceed the structure sizes
Perms == << <<"P","B","S">>, <<"P","S","B">>, <<"B","P","S">>, <<"B","S","P">>, <<"S","P","B">>, <<"S","B","P">> >>
\* The gABI requires natural alignment of the file's data structures ("data also have suitable alignment from
\* the beginning of the file"): the tables and the symbol-table contents start at multiples of 4 (ELF32) / 8 (ELF64);
\* other section contents start anywhere.
Up(c, a) == ((c + a - 1) \div a) * a
SecAlign(B, i) == IF B.sec[i].kind = "symtab" THEN AW(B.cls) ELSE 1
RECURSIVE BodyPos(_, _, _)      \* positions of the section contents from cursor c: sequence of positions
BodyPos(B, i, c) == IF i > Len(B.sec) THEN <<>>
                    ELSE LET q == Up(c, SecAlign(B, i)) IN
                         <<q>> \o BodyPos(B, i + 1, q + Len(SecData(B, i)) + (Rb(rnd, 10 + i) % 4))
BodyEnd(B, c) == LET P == BodyPos(B, 1, c) IN
                 IF P = <<>> THEN c ELSE P[Len(P)] + Len(SecData(B, Len(P))) + (Rb(rnd, 10 + Len(P)) % 4)
ItemSize(B, it, c) == CASE it = "P" -> Len(B.ph) * B.phent
                         [] it = "S" -> Len(B.sec) * B.shent
                         [] OTHER    -> BodyEnd(B, c) - c
ItemAlign(B, it) == IF it = "B" THEN 1 ELSE AW(B.cls)
Layout ==
  /\ st = "lay"
  /\ LET p == opts.perm  pp == opts.pp  sp == opts.sp IN
       LET B0 == [A EXCEPT !.phent = PhdrSize(A.cls) + pp, !.shent = ShdrSize(A.cls) + sp]
           o  == Perms[p]
           c1 == Up(EhdrSize(A.cls) + (Rb(rnd, 1) % 9), ItemAlign(B0, o[1]))
           c2 == Up(c1 + ItemSize(B0, o[1], c1) + (Rb(rnd, 2) % 9), ItemAlign(B0, o[2]))
           c3 == Up(c2 + ItemSize(B0, o[2], c2) + (Rb(rnd, 3) % 9), ItemAlign(B0, o[3]))
           c4 == c3 + ItemSize(B0, o[3], c3) + (Rb(rnd, 4) % 9)
           at(it) == IF o[1] = it THEN c1 ELSE IF o[2] = it THEN c2 ELSE c3
           bp == BodyPos(B0, 1, at("B"))
       IN A' = [B0 EXCEPT !.phpos = IF Len(A.ph) = 0 THEN 0 ELSE at("P"),
                          !.shpos = IF Len(A.sec) = 0 THEN 0 ELSE at("S"),
                          !.sec = Tup([i \in 1..Len(A.sec) |-> [A.sec[i] EXCEPT !.pos = IF A.sec[i].kind = "null" THEN 0 ELSE bp[i]]]),
                          !.size = c4]
  /\ rnd' = Adv(rnd) /\ st' = "done" /\ UNCHANGED <<wantsym, opts>>

Next == Header \/ AddPh \/ EndPh \/ SecStart \/ AddUser \/ EndUser \/ AddSym \/ EndSym \/ Layout
Spec == Init /\ [][Next]_vars

(* ---- M: the design check ---------------------------------------------------*)
RoundTrip == st = "done" => /\ Disjoint(A)
                            /\ Report(Encode(A)) = Expected(A)

(* ---- G: emission -----------------------------------------------------------*)
RECURSIVE SeqOfSet(_)
SeqOfSet(S) == IF S = {} THEN <<>> ELSE LET m == CHOOSE x \in S : TRUE IN <<m>> \o SeqOfSet(S \ {m})
SeedRange == 0..127
QueryAddrs(R) ==
  UNION {LET p == R.ph[k] IN
         { SubD(p.p_vaddr, <<1>>), p.p_vaddr, AddD(p.p_vaddr, SubD(p.p_filesz, <<1>>)), AddD(p.p_vaddr, p.p_filesz),
           AddD(p.p_vaddr, SubD(p.p_memsz, <<1>>)), AddD(p.p_vaddr, p.p_memsz) } : k \in LoadSegs(R)}
  \cup UNION {LET s == R.sh[i] IN
         { s.sh_addr, AddD(s.sh_addr, SubD(s.sh_size, <<1>>)), AddD(s.sh_addr, s.sh_size) }
              : i \in {i \in DOMAIN R.sh : IsAlloc(R.sh[i]) \/ TypeIs(R.sh[i].sh_type, SHT_PROGBITS)}}
Emit == st = "done" =>
  LET b == Encode(A)  R == Report(b)  Q == SeqOfSet(QueryAddrs(R))
  IN PrintT(ToJson([cls |-> A.cls, ord |-> A.ord, bytes |-> b, expect |-> R, rt |-> (R = Expected(A)) /\ Disjoint(A),
                    queries |-> Tup([k \in 1..Len(Q) |-> Query(R, Q[k])])]))
=============================================================================
