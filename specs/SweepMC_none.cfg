\* neither PrefixDetermined nor Window: SameReach must be violated
CONSTANTS
  N = 3
  Bytes = {0, 1}
  W = 2
  Ids = {"a", "b"}
  Hyp = {"Consumes"}
INIT Init
NEXT Next
INVARIANT SameReach
CHECK_DEADLOCK FALSE
