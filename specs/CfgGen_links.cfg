\* behaviour generator (thorough): streams of 3..4 unit instructions, n/c/d, <= 4 insertions, 1 link, 1 re-insertion
CONSTANTS
  MinN = 3
  MaxN = 4
  Lens = {1}
  Flags = {"n", "c", "d"}
  MaxIns = 4
  MaxLinks = 1
  MaxRe = 1
  Wide = FALSE
  GenHist = TRUE
  Dev = {}
INIT Init
NEXT Next
CONSTRAINT Emit
CHECK_DEADLOCK FALSE
