------------------------------- MODULE History -------------------------------
(***************************************************************************)
(* C10 - symbolic results do not depend on analysis history.                *)
(*                                                                          *)
(* The model is tiny; its content is the definition of "meaning" and of the *)
(* two properties.                                                          *)
(*                                                                          *)
(*   globals   the process-global state the anchors name: the sf flag of    *)
(*             every architectural register OBJECT, the decode-mode switch  *)
(*             (env.internals["mode"]), regtype.cur, the _subrefs registries*)
(*   store     results computed so far.  A result of block b is a tree whose*)
(*             register leaves are REFERENCES to the architectural register *)
(*             objects (that is how the i_XXX functions build trees), so a  *)
(*             leaf shows the flag the object carries NOW; a result also    *)
(*             remembers the mode it was decoded in.                        *)
(*   base      block -> meaning when analysed first in a fresh process      *)
(*                                                                          *)
(* Meaning(result, globals): which of its sign-sensitive leaves read as     *)
(* signed, and the mode - everything else in a result is immutable data.    *)
(*                                                                          *)
(* Actions: Analyse(b), Decode(x), Reevaluate(k, env), Unrelated(h).        *)
(*   Stable       a stored result keeps its meaning whatever happens next   *)
(*   HistoryFree  Analyse(b) after any history means base[b]                *)
(*                                                                          *)
(* What the code is SUPPOSED to do (comment at cas/expressions.py:2103):    *)
(* semantics build fresh nodes and never modify shared ones - then no action*)
(* writes `globals` and both properties are inductive.  Dev enables the     *)
(* deviations seen in the code:                                             *)
(*   "GlobalSfWrite"  Analyse(b) writes sf on the shared register objects   *)
(*                    (x.sf = True in AddWithCarry / i_SRA / .signed())     *)
(*   "EvalSfWrite"    Reevaluate with a partial environment clears sf on    *)
(*                    the unbound (shared) leaves (_operator.__call__)      *)
(*   "ModeWrite"      Decode/Analyse leaves the decode-mode switch changed  *)
(* With any of them TLC finds a violation (GlobalSfWrite: 3 states).        *)
(***************************************************************************)
EXTENDS Integers, Sequences, FiniteSets, TLC, Json

CONSTANTS NBlocks,      \* blocks 1..NBlocks
          Regs,         \* architectural register objects
          MaxLen,       \* history length
          Dev,          \* set of enabled deviations
          Gen,          \* generator mode: keep the history, emit it at MaxLen
          MaxOther      \* at most this many non-Analyse actions per history (generator bound)

Blocks == 1..NBlocks
Envs == {"full", "partial", "empty"}
Others == {"fmt", "io", "merge", "use"}

(* static description of the pool (what the scan of the asm modules yields): which shared leaves a block's
   result reads sign-sensitively, which flags its semantics write, whether it depends on / writes the mode *)
RegSeq == CHOOSE s \in [1..Cardinality(Regs) -> Regs] : \A i, j \in 1..Cardinality(Regs) : i # j => s[i] # s[j]
Reg(i) == RegSeq[((i - 1) % Cardinality(Regs)) + 1]
Sens(b)   == IF b % 2 = 1 THEN {Reg(b)} ELSE {}                 \* odd blocks are sign-sensitive on one register
SfSet(b)  == IF b % 2 = 0 THEN {Reg(b - 1)} ELSE {}             \* even blocks mark the previous block's register signed
SfClr(b)  == IF b % 3 = 0 THEN {Reg(b)} ELSE {}
ModeSens(b) == b = NBlocks
ModeSet(b)  == b = 2

VARIABLES globals, store, base, n, h, others
vars == <<globals, store, base, n, h, others>>

Fresh == [sf |-> [r \in Regs |-> FALSE], mode |-> 0, cur |-> 0, subrefs |-> 0]

(* the meaning of a stored result under the current globals *)
Meaning(res, g) == [signed |-> {r \in Sens(res.b) : g.sf[r]},
                    mode |-> IF ModeSens(res.b) THEN res.mode ELSE 0]
(* a new result of block b built under globals g *)
Result(b, g) == [b |-> b, mode |-> g.mode]
BaseOf(b) == Meaning(Result(b, Fresh), Fresh)

WriteSf(g, b) == IF "GlobalSfWrite" \in Dev
                 THEN [g EXCEPT !.sf = [r \in Regs |-> IF r \in SfSet(b) THEN TRUE
                                                        ELSE IF r \in SfClr(b) THEN FALSE ELSE g.sf[r]]]
                 ELSE g
WriteMode(g, b) == IF "ModeWrite" \in Dev /\ ModeSet(b) THEN [g EXCEPT !.mode = 1] ELSE g

Log(a) == IF Gen THEN Append(h, a) ELSE h

Analyse(b) ==
  /\ store' = Append(store, Result(b, globals))
  /\ globals' = WriteMode(WriteSf(globals, b), b)
  /\ h' = Log([act |-> "Analyse", b |-> b])
  /\ UNCHANGED others

Decode(x) ==
  /\ others < MaxOther
  /\ globals' = WriteMode(globals, x)
  /\ h' = Log([act |-> "Decode", b |-> x])
  /\ others' = others + 1
  /\ UNCHANGED store

Reevaluate(k, env) ==
  /\ others < MaxOther
  /\ k \in 1..Len(store)
  /\ globals' = IF "EvalSfWrite" \in Dev /\ env # "full"
                THEN [globals EXCEPT !.sf = [r \in Regs |-> IF r \in Sens(store[k].b) THEN FALSE ELSE globals.sf[r]]]
                ELSE globals
  /\ h' = Log([act |-> "Reevaluate", k |-> k, env |-> env])
  /\ others' = others + 1
  /\ UNCHANGED store

Unrelated(x) ==
  /\ others < MaxOther
  /\ Len(store) > 0
  /\ h' = Log([act |-> "Unrelated", h |-> x])
  /\ others' = others + 1
  /\ UNCHANGED <<globals, store>>

Init == /\ globals = Fresh
        /\ store = <<>>
        /\ base = [b \in Blocks |-> BaseOf(b)]
        /\ n = 0
        /\ h = <<>>
        /\ others = 0

Next == /\ n < MaxLen
        /\ n' = n + 1
        /\ UNCHANGED base
        /\ \/ \E b \in Blocks : Analyse(b)
           \/ \E x \in Blocks : Decode(x)
           \/ \E k \in 1..Len(store), e \in Envs : Reevaluate(k, e)
           \/ \E x \in Others : Unrelated(x)

Spec == Init /\ [][Next]_vars

(* Stable: every step leaves the meaning of every stored result unchanged *)
StableStep == \A k \in 1..Len(store) : Meaning(store'[k], globals') = Meaning(store[k], globals)
Stable == [][StableStep]_vars
(* as a state invariant, relative to the meaning at creation, given HistoryFree at creation *)
HistoryFree == \A k \in 1..Len(store) : Meaning(store[k], globals) = base[store[k].b]

Emit == (Gen /\ n = MaxLen) => PrintT(ToJson(h))
=============================================================================
