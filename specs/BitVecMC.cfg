CONSTANT MaxW = 4
INIT Init
NEXT Next
INVARIANT Anchors
CHECK_DEADLOCK FALSE
