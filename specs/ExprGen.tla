------------------------------- MODULE ExprGen -------------------------------
(***************************************************************************)
(* C01 / C12 / C13 - the USE of amoco's operator API as a state machine.    *)
(* State: the pool of handles a user holds (only their widths matter for    *)
(* deciding which calls are well sized) and the history of API calls.       *)
(* Every behaviour is a sequence of API calls that is well sized by         *)
(* construction; the replayer (harness/c01.py) performs the calls on real   *)
(* objects and records what it observes; specs/ExprTrace.tla then rebuilds  *)
(* the unsimplified tree of every handle and decides, with the reference    *)
(* semantics of specs/lib/Expr.tla, whether amoco preserved meaning (C01),  *)
(* width (C12) and the value of every live handle (C13).                    *)
(*                                                                          *)
(* Pool entries 1..NLeaves are the leaves created up front (in this order): *)
(*   1 reg a (unsigned)  2 reg b (unsigned)  3 reg c (signed)  4 reg d      *)
(*   (signed)  5 cst 0   6 cst 1   7 cst 2^W-1 (unsigned)  8 cst -1 (signed)*)
(*   9 cst 2^(W-1) (unsigned)  10 cst W-1   11 cst W  (both unsigned, mod 2^W)  *)
(*   12 e[1:W+1] declared signed (e: unsigned register of W+2 bits)          *)
(*   13 f[1:W+1] declared unsigned (f: signed register of W+2 bits)          *)
(***************************************************************************)
EXTENDS Integers, Sequences, TLC, Json

CONSTANTS Widths,    \* set of leaf widths; one is chosen per behaviour
          MaxSteps,  \* number of API calls after the leaves
          MaxW,      \* largest width a handle may reach (compositions / widening multiply)
          FreshOnly, \* TRUE: every call after the first must use the newest handle (exhaustive configs)
          Ops,       \* set of action kinds enabled
          Shape,     \* <<>> : any call kind at any step; else the kind of call allowed at each step
          LeafSet,   \* {} : every leaf may be an operand; else only these leaves (deep exhaustive configs)
          AutoSimp,  \* TRUE: append simplify() of every built handle to each behaviour
          MapSpan,   \* partial-write configs: only the low MapSpan bits of r are written
          MapSrc,    \* {} : any handle may be stored by mset; else only these (exhaustive partial-write configs)
          Rand       \* TRUE (simulation configs): operand handles are drawn with RandomElement instead of
                     \* being enumerated, so that a step has ~100 candidate successors instead of ~10^4

VARIABLES W, pool, h, emitted
vars == <<W, pool, h, emitted>>

NLeaves == 13
ShapeAny == <<>>                                  \* cfg files cannot write tuples
ShapeBinSlice == <<"bin", "slice">>
ShapeBinBinSlice == <<"bin", "bin", "slice">>
BinArith == {"+", "-", "*", "&", "|", "^"}
BinCmp   == {"==", "!=", "<", "<=", ">", ">=", "<.", ">=."}
BinWide  == {"**", "/", "%"}
BinShift == {"<<", ">>", ".>>", ">>>", "<<<"}

Init == /\ W \in Widths
        /\ pool = [i \in 1..NLeaves |-> W]
        /\ h = <<>>
        /\ emitted = FALSE

N == Len(pool)
Steps == Len(h)
Uses(r) == ~FreshOnly \/ Steps = 0 \/ N \in r      \* r: set of operand indices of the call

Allowed(kind) == kind \in Ops /\ (Shape = <<>> \/ (Steps + 1 <= Len(Shape) /\ Shape[Steps + 1] = kind))
Pick1(S) == IF Rand /\ S # {} THEN {RandomElement(S)} ELSE S
All == IF LeafSet = {} THEN 1..N ELSE LeafSet \cup ((NLeaves + 1)..N)   \* handles calls may take as operands
Same(i) == {j \in All : pool[j] = pool[i]}
Bits1 == {c \in All : pool[c] = 1}

Push(w, rec) == /\ pool' = Append(pool, w) /\ h' = Append(h, rec @@ [rw |-> w]) /\ UNCHANGED <<W, emitted>>   \* rw: the width the call dictates

(* in simulation configs one operator per group is drawn, so that the other call kinds are not crowded out *)
BinSyms == IF Rand THEN Pick1(BinArith) \cup Pick1(BinCmp) \cup Pick1(BinWide) \cup Pick1(BinShift)
           ELSE BinArith \cup BinCmp \cup BinWide \cup BinShift
Bin == \E s \in BinSyms, i \in Pick1(All) :
       \E j \in Pick1(IF s \in BinShift THEN All ELSE Same(i)) :
         /\ Allowed("bin") /\ Uses({i, j})
         /\ (s \notin BinShift => pool[i] = pool[j])
         /\ (s = "**" => 2 * pool[i] <= MaxW)
         /\ Push(IF s \in BinCmp THEN 1 ELSE IF s = "**" THEN 2 * pool[i] ELSE pool[i],
                 [act |-> "bin", s |-> s, i |-> i, j |-> j])

Un == \E s \in Pick1({"-", "~"}), i \in Pick1(All) :
         /\ Allowed("un") /\ Uses({i})
         /\ Push(pool[i], [act |-> "un", s |-> s, i |-> i])

Slice == \E i \in Pick1(All) : \E pos \in Pick1(0..(pool[i] - 1)) : \E n \in Pick1(1..(pool[i] - pos)) :
         /\ Allowed("slice") /\ Uses({i})
         /\ (pool[i] > 8 /\ ~Rand => (pos \in {0, 1, 7, 8, pool[i] \div 2, pool[i] - 1} /\ n \in {1, 7, 8, pool[i] \div 2, pool[i] - pos}))
         /\ Push(n, [act |-> "slice", i |-> i, pos |-> pos, n |-> n])

Compose == \E i \in Pick1(All), j \in Pick1(All) :
         /\ Allowed("compose") /\ Uses({i, j})
         /\ pool[i] + pool[j] <= MaxW
         /\ Push(pool[i] + pool[j], [act |-> "compose", i |-> i, j |-> j])      \* i = low part

Cond == \E c \in Pick1(Bits1), i \in Pick1(All) : \E j \in Pick1(Same(i)) :
         /\ Allowed("cond") /\ Uses({c, i, j})
         /\ pool[c] = 1 /\ pool[i] = pool[j]
         /\ Push(pool[i], [act |-> "cond", c |-> c, i |-> i, j |-> j])

Ext == \E i \in Pick1(All), sg \in Pick1({0, 1}), n \in Pick1({1, 8, W}) :
         /\ Allowed("ext") /\ Uses({i})
         /\ pool[i] + n <= MaxW
         /\ Push(pool[i] + n, [act |-> "ext", i |-> i, sg |-> sg, w |-> pool[i] + n])

(* e.simplify with options: a new handle (possibly the same object) that must mean the same *)
Simp == \E i \in Pick1((NLeaves + 1)..N), bs \in Pick1({0, 1}), wd \in Pick1({0, 1}) :
         /\ Allowed("simplify") /\ Uses({i})
         /\ Push(pool[i], [act |-> "simplify", i |-> i, bitslice |-> bs, widening |-> wd])

(* pickle round trip of a handle *)
Pick == \E i \in Pick1(12..N) :
         /\ Allowed("pickle") /\ Uses({i})
         /\ Push(pool[i], [act |-> "pickle", i |-> i])

(* m[loc] = handle; handle' = m[loc], optionally after a pickle round trip of the whole map (pk = 1):
   storing an expression in a map and reading it back gives an expression that means the same, and
   leaves the stored one (and every other handle) alone *)
MapW == \E i \in Pick1(All), pk \in Pick1({0, 1}) :
         /\ Allowed("mapw") /\ Uses({i})
         /\ Push(pool[i], [act |-> "mapw", i |-> i, pk |-> pk])

(* evaluation in a symbolic environment: register a is bound to handle j, handle i is evaluated *)
Subst == \E i \in Pick1(All) : \E j \in Pick1({k \in All : pool[k] = W}) :
         /\ Allowed("subst") /\ Uses({i, j})
         /\ Push(pool[i], [act |-> "subst", i |-> i, j |-> j])

(* declare a handle signed / unsigned (exp.signed(), exp.unsigned(): the same object is returned) *)
SetSf == \E i \in Pick1((NLeaves + 1)..N), sf \in {0, 1} :
         /\ Allowed("setsf") /\ Uses({i})
         /\ Push(pool[i], [act |-> "setsf", i |-> i, sf |-> sf])

(* one mapper M lives through the behaviour; r is a register of 2W bits.
   mset: M[r[pos:pos+n]] = handle j [lo:lo+n] (partial register write), the new handle is M(r[pos:pos+n]);
   mget: the new handle is M(r), the whole register as the map now sees it *)
MSet == \E j \in Pick1(IF MapSrc = {} THEN All ELSE MapSrc) :
        \E lo \in Pick1(IF MapSrc = {} THEN 0..(pool[j] - 1) ELSE {0}) :
        \E n \in Pick1(1..(pool[j] - lo)) :
        \E pos \in Pick1({p \in 0..(2 * W - 1) : p + n <= (IF MapSrc = {} THEN 2 * W ELSE MapSpan)}) :
         /\ Allowed("mset") /\ (MapSrc = {} => Uses({j}))
         /\ (MapSrc # {} => Steps < MaxSteps - 1)      \* partial-write configs: the last call is the read back
         /\ Push(n, [act |-> "mset", j |-> j, lo |-> lo, pos |-> pos, n |-> n])   \* value = handle j [lo : lo+n]
MGet == /\ Allowed("mget") /\ 2 * W <= MaxW /\ (IF Steps = 0 THEN TRUE ELSE h[Steps].act # "mget")
        /\ (MapSrc # {} => Steps >= 2)               \* partial-write configs: read back after >= 2 writes
        /\ Push(2 * W, [act |-> "mget"])

(* a complete behaviour is printed exactly once, by its own (single) successor step: in simulation
   mode TLC evaluates constraints on every candidate successor, an action prints only for the one taken *)
(* AutoSimp: every behaviour ends with simplify() of each handle it built (the rewrite rules are reached on
   every shape the behaviour produced, not only where the generator happened to draw a simplify call) *)
Closing == IF AutoSimp
           THEN [k \in 1..(N - NLeaves) |-> [act |-> "simplify", i |-> NLeaves + k, bitslice |-> k % 2, widening |-> 0,
                                              rw |-> pool[NLeaves + k]]]
           ELSE <<>>
Done == /\ Steps = MaxSteps /\ ~emitted
        /\ (MapSrc # {} => h[Steps].act = "mget")
        /\ PrintT(ToJson([w |-> W, calls |-> h \o Closing]))
        /\ emitted' = TRUE /\ UNCHANGED <<W, pool, h>>

Next == \/ /\ Steps < MaxSteps
           /\ (Bin \/ Un \/ Slice \/ Compose \/ Cond \/ Ext \/ Simp \/ Pick \/ MapW \/ Subst \/ SetSf \/ MSet \/ MGet)
        \/ Done

Spec == Init /\ [][Next]_vars

=============================================================================
