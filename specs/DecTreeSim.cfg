\* G (simulation): tables of 7 specs over 2-bit units, heavy masks (deep trees), both fetch orders, rejecting hooks
CONSTANTS
  U = 2
  Sizes = {1, 2}
  Endians <- EBoth
  LeafMax = 5
  MaxSpecs = 7
  HookVals = {TRUE, FALSE}
  MinW = 2
  CallExtra = 0
  AnyN = 0
  Dev = {}
  Gen = TRUE
INIT Init
NEXT Next
CONSTRAINT EmitC
CHECK_DEADLOCK FALSE
