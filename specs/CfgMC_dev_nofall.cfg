\* self-test: the fault NoFallThrough must violate FallThrough
CONSTANTS
  MinN = 2
  MaxN = 3
  Lens = {1}
  Flags = {"n", "c"}
  MaxIns = 2
  MaxLinks = 0
  MaxRe = 0
  Wide = FALSE
  GenHist = FALSE
  Dev = {"NoFallThrough"}
INIT Init
NEXT Next
INVARIANT Disjoint
INVARIANT Covers
INVARIANT FallThrough
INVARIANT NoRaise
INVARIANT NoOverlay
INVARIANT BlocksAreMaximalRuns
CHECK_DEADLOCK FALSE
