------------------------------- MODULE Decoder -------------------------------
(***************************************************************************)
(* C11 (and the design side of C05/C17) - amoco's disassembler object       *)
(* (arch/core.py:241-330) modelled at the level of ONE decode call and of   *)
(* call histories on ONE object.                                            *)
(*                                                                          *)
(* Bytes are abstracted to tokens that say what the specification tree does *)
(* with them:                                                               *)
(*   "P"  a prefix spec ('+') matches this byte                             *)
(*   "V"  a final spec matches, 1 byte, its hook succeeds                   *)
(*   "W"  a final spec matches but its hook needs one more byte (ModRM,     *)
(*        LEB128, ...): with it -> 2-byte instruction, without it the hook  *)
(*        raises InstructionError (truncated input)                         *)
(*   "N"  two candidate specs in the leaf: the first rejects                *)
(*        (precondition / hook raises InstructionError, ispec.decode rolls  *)
(*        back bytes and attributes), the second accepts, 1 byte            *)
(*   "R"  a spec matches but every candidate's hook rejects                 *)
(*   "X"  no spec matches                                                   *)
(*   "E"  a spec matches and its hook raises a FOREIGN exception (KeyError, *)
(*        TypeError, ...) - the subject of C17                              *)
(*                                                                          *)
(* Two descriptions:                                                        *)
(*   Fresh(in)   the ABSTRACT meaning of a call: the outcome as a function  *)
(*               of the input only                                          *)
(*   the actions Call / MatchPrefix / MatchFinal / HookRejects / NoMatch /  *)
(*               HookRaises: a transcription of disassembler.__call__ with  *)
(*               the instance variable __i (`pending`) that survives the    *)
(*               call when an exception propagates (there is no `finally`)  *)
(* NoMemory and Functional are C11 at design level.                         *)
(*                                                                          *)
(* Under the generator configs the module prints every call history of      *)
(* MaxCalls calls over the input classes, with what the model predicts for  *)
(* each call; harness/c11.py replays them on a real disassembler object.    *)
(***************************************************************************)
EXTENDS DecoderObs, TLC, Json

CONSTANTS Alphabet,   \* tokens that may occur in inputs (checking configs)
          MaxLen,     \* inputs are all token strings of length 0..MaxLen (checking configs)
          Classes,    \* input classes of the generator configs
          MaxCalls,   \* calls per history
          GenHist,    \* TRUE: inputs are drawn from Classes (generator), FALSE: from Alphabet^(0..MaxLen)
          RaiseAfterPrefix, \* FALSE: inputs in which "E" follows a "P" are excluded
          Dev         \* enabled faults: "KeepOnNoMatch", "KeepOnFinal", "NoRollback", "ResetOnRaise"

VARIABLES pending,  \* the instance variable __i: [set |-> BOOLEAN, bytes |-> tokens consumed so far]
          pc,       \* "idle" | "walk" | "nomatch"
          inp,      \* the input of the current call
          cls,      \* its class name (generator) or "-"
          rest,     \* what remains to be matched (the recursion argument)
          calls     \* completed calls: [cls, in, out, pend]
vars == <<pending, pc, inp, cls, rest, calls>>

Cleared == [set |-> FALSE, bytes |-> <<>>]
Cur     == IF pending.set THEN pending.bytes ELSE <<>>
Instr(bs) == [k |-> "instr", len |-> Len(bs), bytes |-> bs]
Raised  == [k |-> "raised"]

-----------------------------------------------------------------------------
(* The abstract meaning: outcome as a function of the input alone.          *)
RECURSIVE FreshFrom(_, _)
FreshFrom(acc, r) ==
  IF r = <<>> THEN None
  ELSE LET t == Head(r) IN
       CASE t = "P" -> FreshFrom(Append(acc, "P"), Tail(r))
         [] t = "V" -> Instr(Append(acc, "V"))
         [] t = "N" -> Instr(Append(acc, "N"))
         [] t = "W" -> IF Len(r) >= 2 THEN Instr(acc \o SubSeq(r, 1, 2)) ELSE None
         [] t = "E" -> Raised
         [] OTHER   -> None
Fresh(i) == FreshFrom(<<>>, i)

(* input classes of the statement of C11 ("valid, invalid, truncated-after- *)
(* prefix, exception-raising inputs in any order")                          *)
ClassInput(c) ==
  CASE c = "valid"            -> <<"V">>
    [] c = "invalid"          -> <<"X">>
    [] c = "truncated"        -> <<"W">>
    [] c = "rejecting"        -> <<"R">>
    [] c = "raising"          -> <<"E">>
    [] c = "prefix_only"      -> <<"P">>
    [] c = "prefix_truncated" -> <<"P", "W">>
    [] c = "prefix_invalid"   -> <<"P", "X">>
    [] c = "prefix_valid"     -> <<"P", "V">>
    [] c = "prefix_raising"   -> <<"P", "E">>

SmallInputs == UNION {[1..n -> Alphabet] : n \in 0..MaxLen}
EAfterP(i)  == \E a, b \in 1..Len(i) : a < b /\ i[a] = "P" /\ i[b] = "E"
Picks == IF GenHist
         THEN {<<c, ClassInput(c)>> : c \in Classes}
         ELSE {<<"-", i>> : i \in {j \in SmallInputs : RaiseAfterPrefix \/ ~EAfterP(j)}}

-----------------------------------------------------------------------------
Init == /\ pending = Cleared /\ pc = "idle" /\ inp = <<>> /\ cls = "-" /\ rest = <<>> /\ calls = <<>>

(* cpu.disassemble(bytestring): the object is entered with whatever __i holds *)
Call(p) ==
  /\ pc = "idle" /\ Len(calls) < MaxCalls
  /\ cls' = p[1] /\ inp' = p[2] /\ rest' = p[2] /\ pc' = "walk"
  /\ UNCHANGED <<pending, calls>>

Return(o, p) ==
  /\ pc' = "idle" /\ pending' = p
  /\ calls' = Append(calls, [cls |-> cls, in |-> inp, out |-> o, pend |-> p.set])
  /\ UNCHANGED <<inp, cls, rest>>

(* core.py:311-314  `if i.spec.pfx is True: if self.__i is None: self.__i = i;        *)
(*                   return self(bytestring[n:])`  - with i = decode(..., i=self.__i)  *)
MatchPrefix ==
  /\ pc = "walk" /\ rest # <<>> /\ Head(rest) = "P"
  /\ pending' = [set |-> TRUE, bytes |-> Append(Cur, "P")]
  /\ rest' = Tail(rest)
  /\ UNCHANGED <<pc, inp, cls, calls>>

(* core.py:317-320  success: `self.__i = None; return i`                                *)
MatchFinal ==
  /\ pc = "walk" /\ rest # <<>>
  /\ LET t == Head(rest)
         keep == IF "KeepOnFinal" \in Dev THEN pending ELSE Cleared IN
     \/ /\ t = "V" /\ Return(Instr(Append(Cur, "V")), keep)
     \/ /\ t = "W" /\ Len(rest) >= 2 /\ Return(Instr(Cur \o SubSeq(rest, 1, 2)), keep)
     \/ /\ t = "N"     \* first candidate rejected and rolled back (core.py:653-658), second accepts
        /\ Return(Instr(IF "NoRollback" \in Dev /\ pending.set THEN Cur \o <<"N", "N">> ELSE Append(Cur, "N")), keep)

(* core.py:305-309 + 653-658: InstructionError -> bytes/attributes rolled back, next spec *)
HookRejects ==
  /\ pc = "walk" /\ rest # <<>>
  /\ Head(rest) = "R" \/ (Head(rest) = "W" /\ Len(rest) < 2)
  /\ pc' = "nomatch"
  /\ pending' = IF "NoRollback" \in Dev /\ pending.set
                THEN [pending EXCEPT !.bytes = Append(@, Head(rest))] ELSE pending
  /\ UNCHANGED <<inp, cls, rest, calls>>

(* core.py:321-330: leaf exhausted / no subtree: `self.__i = None; return None`          *)
NoMatch ==
  /\ \/ pc = "nomatch"
     \/ pc = "walk" /\ rest = <<>>
     \/ pc = "walk" /\ rest # <<>> /\ Head(rest) = "X"
  /\ Return(None, IF "KeepOnNoMatch" \in Dev THEN pending ELSE Cleared)

(* any other exception propagates out of __call__.  Before commit 2d3ae16 nothing reset __i  *)
(* (Dev = {}); since then the except clause resets it (Dev = {"ResetOnRaise"}).          *)
HookRaises ==
  /\ pc = "walk" /\ rest # <<>> /\ Head(rest) = "E"
  /\ Return(Raised, IF "ResetOnRaise" \in Dev THEN Cleared ELSE pending)

Next == (\E p \in Picks : Call(p)) \/ MatchPrefix \/ MatchFinal \/ HookRejects \/ NoMatch \/ HookRaises
Spec == Init /\ [][Next]_vars

-----------------------------------------------------------------------------
(* C11 at design level *)
NoMemory   == pc = "idle" => ~pending.set
FunctionalCalls == \A k \in 1..Len(calls) : calls[k].out = Fresh(calls[k].in)
(* C05 at design level: the history of one object, read as a set of observations *)
Hist == {[m |-> 0, in |-> calls[k].in, out |-> calls[k].out] : k \in 1..Len(calls)}
ConsumesInv == Consumes(Hist)
PrefixDeterminedInv == PrefixDetermined(Hist)
FunctionalInv == Functional(Hist)

-----------------------------------------------------------------------------
(* generator: one line per complete history; per call the class and what the model        *)
(* (with HookRaises as the code has it) predicts: outcome kind, number of prefix tokens in *)
(* the instruction, whether __i is left set, whether the outcome differs from Fresh(in)    *)
NP(o) == IF IsInstr(o) THEN Cardinality({j \in 1..Len(o.bytes) : o.bytes[j] = "P"}) ELSE 0
Beh == [k \in 1..Len(calls) |->
          [cls  |-> calls[k].cls,
           k    |-> calls[k].out.k,
           npfx |-> NP(calls[k].out),
           pend |-> IF calls[k].pend THEN 1 ELSE 0,
           leak |-> IF calls[k].out = Fresh(calls[k].in) THEN 0 ELSE 1,
           fk   |-> Fresh(calls[k].in).k]]
Emit == (pc = "idle" /\ Len(calls) = MaxCalls) => PrintT(ToJson(Beh))
=============================================================================
