\* C09 G: behaviours of 4 micro-operations (<= 3 stores, <= 2 loads), little- and big-endian, aliasing allowed
CONSTANTS
  Ptrs = {"p", "q"}
  Offs = {0, 1}
  Sizes = {1, 2}
  Deltas <- DeltasSmall
  P0 = 4
  Top = 10
  NAs = {FALSE}
  MTs = {TRUE}
  Ens <- EnsBoth
  MInits = {0}
  VKs = {"d", "r"}
  MaxSt = 3
  MaxLd = 2
  MaxLen = 4
  Template <- NoTemplate
  Q = {}
  Clauses <- AllClauses
  Probe = FALSE
  PvInState = TRUE
  Gen = TRUE
INIT Init
NEXT Next
CHECK_DEADLOCK FALSE
CONSTRAINT Emit
