\* exhaustive: every sequence of 4 partial writes of a[0:n] into the 6-bit register r of a mapper, then M(r); thorough: all 6 bits
CONSTANTS
  Widths = {3}
  MaxSteps = 5
  MaxW = 8
  FreshOnly = FALSE
  Ops = {"mset", "mget"}
  Shape <- ShapeAny
  LeafSet = {}
  AutoSimp = FALSE
  MapSpan = 6
  MapSrc = {1}
  Rand = FALSE
INIT Init
NEXT Next
CHECK_DEADLOCK FALSE
