\* C19 G: every pair of branches (<= 2 operations each, no prefix) of the small model, with path-condition choices,
\* printed for replay on real mappers
CONSTANTS
  Regs = {"a"}
  Flags = {"f"}
  RB = 2
  Offsets = {0, 1}
  Sizes = {1, 2}
  Kinds = {1, 2, 3}
  PPs = {2}
  MaxPre = 0
  MaxB = 2
  Widen = {FALSE}
  Thr = {FALSE}
  Conds = {0, 1}
  Q = {}
  Gen = TRUE
INIT Init
NEXT Next
CHECK_DEADLOCK FALSE
CONSTRAINT Emit
