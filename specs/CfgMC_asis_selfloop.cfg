\* the code as it is today, deviation SplitSelfLoop: TLC must find FallThrough violated
CONSTANTS
  MinN = 2
  MaxN = 3
  Lens = {1}
  Flags = {"n", "c"}
  MaxIns = 2
  MaxLinks = 0
  MaxRe = 0
  Wide = FALSE
  GenHist = FALSE
  Dev = {"SplitSelfLoop"}
INIT Init
NEXT Next
INVARIANT Disjoint
INVARIANT Covers
INVARIANT FallThrough
INVARIANT NoRaise
INVARIANT NoOverlay
INVARIANT BlocksAreMaximalRuns
CHECK_DEADLOCK FALSE
