\* exhaustive, deep: op2(op1(x,y),z) over the leaves a, b, 1, 2^W-1 followed by every slice (+ simplify), width 2
CONSTANTS
  Widths = {2}
  MaxSteps = 3
  MaxW = 8
  FreshOnly = TRUE
  Ops = {"bin", "slice"}
  Shape <- ShapeBinBinSlice
  LeafSet = {1, 2, 6, 7}
  AutoSimp = TRUE
  MapSpan = 6
  MapSrc = {}
  Rand = FALSE
INIT Init
NEXT Next
CHECK_DEADLOCK FALSE
