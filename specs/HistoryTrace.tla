----------------------------- MODULE HistoryTrace -----------------------------
(***************************************************************************)
(* C10, validation of executed histories (harness/c10.py).                  *)
(*                                                                          *)
(* TRACE_FILE: NDJSON.  Lines                                               *)
(*   [kind |-> "base", isa, blocks : <<[b, raised, vals]>>]                 *)
(*        per ISA: what block b means when it is analysed FIRST in a fresh  *)
(*        process: vals[valuation] = <<"loc=c:hex">> amoco's own concrete   *)
(*        evaluation sigma >> map(b), per written location (c = 1 constant  *)
(*        value in hex, c = 0 still symbolic, c = 2 raised)                 *)
(*   [kind |-> "hist", t, isa, steps : <<[act, ..., raised,                 *)
(*        obs : <<[k, b, vals]>>]>>]                                        *)
(*        one history executed in one process; obs lists, after that step,  *)
(*        the same evaluation of EVERY map stored so far (k = handle,       *)
(*        b = its block)                                                    *)
(*                                                                          *)
(* The deciding observable is amoco's own evaluation (History.tla:          *)
(* Meaning).  Clauses, first failure of each kept, the trace always         *)
(* consumed to its end:                                                     *)
(*   Stable       for every step and every map stored before it: the        *)
(*                evaluation after the step equals the evaluation before it *)
(*   HistoryFree  the map a step Analyse(b) stores evaluates exactly as     *)
(*                base[b] (and raises iff the fresh analysis raises)        *)
(***************************************************************************)
EXTENDS Integers, Sequences, TLC, Json, IOUtils

Traces == TLCGet(7)      \* parsed once in Init (a plain definition would re-parse the file at every use)

VARIABLES tid, j, verdict, done
vars == <<tid, j, verdict, done>>

T == Traces[tid]
IsHist(i) == Traces[i].kind = "hist" /\ "steps" \in DOMAIN Traces[i]
BaseLine(isa) == Traces[CHOOSE i \in 1..Len(Traces) : Traces[i].kind = "base" /\ Traces[i].isa = isa]
HasBase(isa, b) == /\ \E i \in 1..Len(Traces) : Traces[i].kind = "base" /\ Traces[i].isa = isa
                   /\ \E x \in 1..Len(BaseLine(isa).blocks) : BaseLine(isa).blocks[x].b = b
Base(isa, b) == LET L == BaseLine(isa).blocks IN L[CHOOSE x \in 1..Len(L) : L[x].b = b]

(* first (valuation, location) where two evaluations differ: <<0,0>> if none *)
RECURSIVE LocDiff(_, _, _)
LocDiff(P, Q, i) ==
  IF Len(P) # Len(Q) THEN -1
  ELSE IF i > Len(P) THEN 0
  ELSE IF P[i] # Q[i] THEN i
  ELSE LocDiff(P, Q, i + 1)
RECURSIVE ValDiff(_, _, _)
ValDiff(V, W, e) ==
  IF Len(V) # Len(W) THEN <<-1, 0>>
  ELSE IF e > Len(V) THEN <<0, 0>>
  ELSE LET d == LocDiff(V[e], W[e], 1) IN IF d # 0 THEN <<e, d>> ELSE ValDiff(V, W, e + 1)

Detail(clause, step, k, b, V, W, d) ==
  ToJson([clause |-> clause, step |-> step, k |-> k, b |-> b, val |-> d[1],
          locidx |-> d[2],
          \* d[2] = -1: the two evaluations do not even list the same locations (one of them raised)
          before |-> IF d[1] > 0 /\ d[2] > 0 THEN V[d[1]][d[2]]
                     ELSE IF d[1] > 0 /\ d[2] = -1 /\ Len(V[d[1]]) > 0 THEN V[d[1]][1] ELSE "?",
          after |-> IF d[1] > 0 /\ d[2] > 0 /\ d[2] <= Len(W[d[1]]) THEN W[d[1]][d[2]]
                    ELSE IF d[1] > 0 /\ d[2] = -1 /\ Len(W[d[1]]) > 0 THEN W[d[1]][1] ELSE "?"])

Set(v, f, val) == IF v[f] = "ok" THEN [v EXCEPT ![f] = val] ELSE v

(* Stable at step s (s >= 2): maps stored before step s evaluate as they did after step s-1 *)
RECURSIVE StableFrom(_, _, _, _)
StableFrom(v, s, prev, k) ==
  IF k > Len(prev) THEN v
  ELSE LET cur == T.steps[s].obs IN
       IF k > Len(cur) THEN Set(v, "stable", ToJson([clause |-> "Stable", step |-> s, k |-> k, b |-> prev[k].b, val |-> -2,
                                                      locidx |-> 0, before |-> "?", after |-> "missing"]))
       ELSE LET d == ValDiff(prev[k].vals, cur[k].vals, 1) IN
            IF d[1] = 0 THEN StableFrom([v EXCEPT !.stablechecks = @ + 1], s, prev, k + 1)
            ELSE StableFrom(Set(v, "stable", Detail("Stable", s, k, prev[k].b, prev[k].vals, cur[k].vals, d)), s, prev, k + 1)

CheckStep(v, s) ==
  LET st == T.steps[s]
      prev == IF s = 1 THEN <<>> ELSE T.steps[s - 1].obs
      v1 == StableFrom(v, s, prev, 1)
  IN IF st.act # "Analyse" \/ "skipped" \in DOMAIN st THEN v1
     ELSE IF ~HasBase(T.isa, st.b) THEN Set(v1, "free", ToJson([clause |-> "HistoryFree", step |-> s, k |-> 0, b |-> st.b, val |-> -3,
                                                            locidx |-> 0, before |-> "nobase", after |-> "?"]))
     ELSE LET bs == Base(T.isa, st.b) IN
          IF bs.raised # st.raised
          THEN Set(v1, "free", ToJson([clause |-> "HistoryFree", step |-> s, k |-> 0, b |-> st.b, val |-> -4,
                                       locidx |-> 0, before |-> "raise=" \o bs.raised, after |-> "raise=" \o st.raised]))
          ELSE IF Len(st.obs) # Len(prev) + 1 THEN v1          \* nothing was stored (both raised)
          ELSE LET new == st.obs[Len(st.obs)]
                   d == ValDiff(bs.vals, new.vals, 1)
               IN IF d[1] = 0 THEN [v1 EXCEPT !.freechecks = @ + 1]
                  ELSE Set(v1, "free", Detail("HistoryFree", s, new.k, st.b, bs.vals, new.vals, d))

Init == /\ TLCSet(7, ndJsonDeserialize(IOEnv.TRACE_FILE))
        /\ tid \in {i \in 1..Len(Traces) : IsHist(i)}
        /\ j = 1
        /\ verdict = [stable |-> "ok", free |-> "ok", stablechecks |-> 0, freechecks |-> 0]
        /\ done = FALSE

Step ==
  /\ ~done /\ j <= Len(T.steps)
  /\ j' = j + 1 /\ UNCHANGED <<tid, done>>
  /\ verdict' = CheckStep(verdict, j)

Finish ==
  /\ ~done /\ j > Len(T.steps)
  /\ done' = TRUE
  /\ PrintT(ToJson([t |-> T.t, isa |-> T.isa, v |-> verdict]))
  /\ UNCHANGED <<tid, j, verdict>>

Next == Step \/ Finish
Spec == Init /\ [][Next]_vars
=============================================================================
