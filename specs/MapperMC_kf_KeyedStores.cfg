\* C09 finding: amoco's quirk KeyedStores ALONE (everything else repaired) must violate Correct:
\* a narrower store to a written location re-asserts the old upper bytes after stores through other pointers
CONSTANTS
  Ptrs = {"p", "q"}
  Offs = {0, 1}
  Sizes = {1, 2}
  Deltas <- DeltasSmall
  P0 = 4
  Top = 10
  NAs = {FALSE}
  MTs = {TRUE}
  Ens <- EnsLE
  MInits = {0}
  VKs = {"d"}
  MaxSt = 3
  MaxLd = 0
  MaxLen = 3
  Template <- NoTemplate
  Q = {"KeyedStores"}
  Clauses <- AllClauses
  Probe = TRUE
  PvInState = FALSE
  Gen = FALSE
INIT Init
NEXT Next
CHECK_DEADLOCK FALSE
INVARIANTS Correct
