-------------------------------- MODULE Loader --------------------------------
(***************************************************************************)
(* C15: the memory image a loaded ELF program must have.                    *)
(*   SegMem(b, p)  the bytes of loadable segment p in memory, p_memsz long: *)
(*                 the file bytes b[p_offset ..] for the file-backed part   *)
(*                 (p_filesz), zero for the rest (gABI, "Program Loading":  *)
(*                 the extra bytes are defined to hold the value 0 and to   *)
(*                 follow the segment's initialized area).                  *)
(*   Image(b)      every PT_LOAD segment with its virtual address           *)
(*   Slots(b)      the pointer-sized slots named by the file's relocations  *)
(*                 that bind a symbol (SHT_REL / SHT_RELA sections, symbol  *)
(*                 names through the linked symbol table and its string     *)
(*                 table), which a loader may fill with the external symbol *)
(*   Entry(b)      e_entry                                                  *)
(* The page size only decides how much a loader maps around a segment; it   *)
(* does not change what is inside [p_vaddr, p_vaddr + p_memsz).             *)
(***************************************************************************)
EXTENDS Elf, ImageCheck

Cap2(d) == IF FitsNat(d) THEN ToNat(d) ELSE 0
SegMem(b, p) ==
  LET off == Cap(b, p.p_offset)  fs == Cap(b, p.p_filesz)  ms == Cap2(p.p_memsz)
  IN Tup([i \in 1..ms |-> IF i <= fs /\ off + i <= Len(b) THEN b[off + i] ELSE 0])

Image(b) == LET ph == PhdrsOf(b)  L == SetToSeq({k \in DOMAIN ph : TypeIs(ph[k].p_type, PT_LOAD)})
            IN Tup([j \in 1..Len(L) |-> [k |-> L[j] - 1, va |-> ph[L[j]].p_vaddr, fs |-> Min2(Cap(b, ph[L[j]].p_filesz), Cap2(ph[L[j]].p_memsz)),
                                          mem |-> SegMem(b, ph[L[j]])]])
Entry(b) == EhdrOf(b).e_entry

\* the bytes the file places at address a, n of them at most (stops at the end of the segment holding a)
AtAddr(b, a, n) ==
  LET ph == PhdrsOf(b)
      S  == {k \in DOMAIN ph : TypeIs(ph[k].p_type, PT_LOAD) /\ InD(a, ph[k].p_vaddr, ph[k].p_memsz)}
  IN IF S = {} THEN <<>>
     ELSE LET k == CHOOSE k \in S : TRUE  m == SegMem(b, ph[k])  o == ToNat(SubD(a, ph[k].p_vaddr))
          IN SubSeq(m, o + 1, Min2(Len(m), o + n))

\* how many of the bytes from a on are file-backed (0 if a is in no segment or in a bss tail)
FileBackedFrom(b, a) ==
  LET ph == PhdrsOf(b)
      S  == {k \in DOMAIN ph : TypeIs(ph[k].p_type, PT_LOAD) /\ InD(a, ph[k].p_vaddr, ph[k].p_filesz)}
  IN IF S = {} THEN 0 ELSE LET k == CHOOSE k \in S : TRUE IN Cap2(ph[k].p_filesz) - ToNat(SubD(a, ph[k].p_vaddr))

(* ---- a paging loader (implementation-shaped): Elf.loadsegment + OS.load_elf_binary -------------*)
(* For each PT_LOAD in table order the loader writes, at the page start of p_vaddr, the file bytes from       *)
(* p_offset - pageoffset(p_vaddr), pagealign(p_filesz + pageoffset) of them (fewer at end of file); a segment  *)
(* with p_memsz > p_filesz has everything after its file-backed part zeroed, up to the page end of its memory  *)
(* size.  Dev = "NoBssZero" is the loader without that zero fill (amoco's behaviour on the unchanged tree);    *)
(* Dev = "AddrFromOffset" maps at the page start of p_offset instead of p_vaddr.                               *)
PageOff(d, ps)  == ToNat(SubSeq(d, 1, 2)) % ps                      \* ps is a power of two <= 65536
PageUp(n, ps)   == ((n + ps - 1) \div ps) * ps
PagedWriteD(b, p, ps, dev) ==
  LET po   == PageOff(p.p_vaddr, ps)
      fs   == Cap2(p.p_filesz)   ms == Cap2(p.p_memsz)
      off  == Cap2(p.p_offset) - po
      size == PageUp(fs + po, ps)
      raw  == Tup([i \in 1..Min2(size, Len(b) - off) |-> b[off + i]])
      data == IF ms > fs /\ dev # "NoBssZero"
              THEN Tup([i \in 1..PageUp(po + ms, ps) |-> IF i <= po + fs /\ i <= Len(raw) THEN raw[i] ELSE 0])
              ELSE raw
      addr == IF dev = "AddrFromOffset" THEN SubD(p.p_offset, Digits(PageOff(p.p_offset, ps), 2))
              ELSE SubD(p.p_vaddr, Digits(po, 2))
  IN [a |-> addr, d |-> data]
PagedWritesD(b, ps, dev) == LET ph == PhdrsOf(b)  L == SetToSeq({k \in DOMAIN ph : TypeIs(ph[k].p_type, PT_LOAD)})
                           IN Tup([j \in 1..Len(L) |-> PagedWriteD(b, ph[L[j]], ps, dev)])
PagedWrites(b, ps) == PagedWritesD(b, ps, Dev)
\* the image the loader without zero fill leaves (the named deviation of the unchanged tree): cells, -1 = unmapped
AsIsImage(b, ps) == LET W == PagedWritesD(b, ps, "NoBssZero")  I == Image(b) IN
  Tup([j \in 1..Len(I) |-> ViewAfter(Unmapped(Len(I[j].mem)), I[j].va, W, 1)])
AsIsAt(b, ps, a, n) ==
  LET I == Image(b)  S == {k \in DOMAIN I : InD(a, I[k].va, Digits(Len(I[k].mem), Len(a)))} IN
  IF S = {} THEN <<>> ELSE LET k == CHOOSE k \in S : TRUE  m == AsIsImage(b, ps)[k]  o == ToNat(SubD(a, I[k].va))
                           IN SubSeq(m, o + 1, Min2(Len(m), o + n))
\* the paging loader leaves exactly Image(b) in every segment
PagedRefines(b, ps) == LET W == PagedWrites(b, ps)  I == Image(b) IN
  \A j \in DOMAIN I : ViewAfter(Unmapped(Len(I[j].mem)), I[j].va, W, 1) = I[j].mem

(* ---- relocations -----------------------------------------------------------*)
SHT_RELA == 4   SHT_REL == 9
RelL(cls)  == << F("r_offset", AW(cls)), F("r_info", AW(cls)) >>
RelaL(cls) == << F("r_offset", AW(cls)), F("r_info", AW(cls)), F("r_addend", AW(cls)) >>
RelSym(cls, info) == IF cls = 64 THEN SubSeq(info, 5, 8) ELSE SubSeq(info, 2, 4)     \* ELF64_R_SYM / ELF32_R_SYM
RelSecs(sh) == {i \in DOMAIN sh : (TypeIs(sh[i].sh_type, SHT_REL) \/ TypeIs(sh[i].sh_type, SHT_RELA))
                                  /\ FitsNat(sh[i].sh_entsize) /\ ToNat(sh[i].sh_entsize) > 0}
RelocsOf(b, sh, i) ==
  LET s    == sh[i]   cls == ClsOf(b)
      L    == IF TypeIs(s.sh_type, SHT_RELA) THEN RelaL(cls) ELSE RelL(cls)
      ent  == ToNat(s.sh_entsize)
      n    == Cap(b, s.sh_size) \div ent
      tab  == TableOf(b, L, Cap(b, s.sh_offset), ent, n)
      lk   == IF FitsNat(s.sh_link) THEN ToNat(s.sh_link) ELSE Len(sh)        \* the symbol table
      symok == lk < Len(sh) /\ IsSymTab(sh[lk + 1]) /\ FitsNat(sh[lk + 1].sh_entsize) /\ ToNat(sh[lk + 1].sh_entsize) > 0
      st   == IF symok THEN SymTabOf(b, sh, lk + 1) ELSE [syms |-> <<>>, names |-> <<>>]
  IN Tup([j \in 1..n |-> LET si == ToNat(RelSym(cls, tab[j].r_info)) IN
            [a |-> tab[j].r_offset, sym |-> si,
             name |-> IF si >= 1 /\ si < Len(st.names) THEN st.names[si + 1] ELSE <<>>]])
\* every relocation entry (sym = 0: the entry binds no symbol, e.g. R_*_RELATIVE); Slots: those that bind one
AllSlots(b) == LET sh == ShdrsOf(b)  R == SetToSeq(RelSecs(sh)) IN
  SelectSeq(Flat(Tup([k \in 1..Len(R) |-> RelocsOf(b, sh, R[k])])), LAMBDA r : ~IsZeroD(r.a))
Slots(b) == SelectSeq(AllSlots(b), LAMBDA r : r.sym # 0)

=============================================================================
