------------------------------ MODULE BitVecMC ------------------------------
(* Anchors specs/lib/BitVec.tla to ordinary integer arithmetic: every operator is compared with
   its definition over Integers, exhaustively for all pairs of bit-vectors of widths 1..MaxW. *)
EXTENDS BitVec, TLC
CONSTANT MaxW
VARIABLES a, b
Init == \E w \in 1..MaxW : a \in BV(w) /\ b \in BV(w)
Next == UNCHANGED <<a, b>>
w == Len(a)
M == Pow2(w)
ua == ToNat(a)  ub == ToNat(b)  sa == ToInt(a)  sb == ToInt(b)
TDiv(x, y) == IF (x < 0) = (y < 0) THEN (IF x < 0 THEN (-x) \div (-y) ELSE x \div y)
              ELSE -((IF x < 0 THEN -x ELSE x) \div (IF y < 0 THEN -y ELSE y))
TRem(x, y) == x - y * TDiv(x, y)
FDiv(x, y) == LET q == TDiv(x, y) r == x - y * q IN IF r # 0 /\ ((r < 0) # (y < 0)) THEN q - 1 ELSE q
FRem(x, y) == x - y * FDiv(x, y)
Anchors ==
  /\ ToNat(Add(a, b)) = (ua + ub) % M
  /\ ToNat(Sub(a, b)) = (ua - ub) % M
  /\ ToNat(Neg(a)) = (-ua) % M
  /\ ToNat(Mul(a, b)) = (ua * ub) % M
  /\ ToNat(Mul2U(a, b)) = ua * ub
  /\ ToInt(Mul2S(a, b)) = sa * sb
  /\ Len(Mul2U(a, b)) = 2 * w /\ Len(Mul2S(a, b)) = 2 * w
  /\ ToNat(And(a, b)) = ToNat([i \in 1..w |-> a[i] * b[i]])
  /\ Not(Not(a)) = a /\ ToNat(Not(a)) = M - 1 - ua
  /\ Xor(a, b) = Or(And(a, Not(b)), And(Not(a), b))
  /\ Ult(a, b) = (ua < ub) /\ Ule(a, b) = (ua <= ub)
  /\ Slt(a, b) = (sa < sb) /\ Sle(a, b) = (sa <= sb)
  /\ CarryOut(a, b, 0) = (ua + ub) \div M
  /\ \A n \in 0..(w + 2) :
        /\ ToNat(Shl(a, n)) = (ua * Pow2(n)) % M
        /\ ToNat(Lshr(a, n)) = ua \div Pow2(n)
        /\ ToInt(Ashr(a, n)) = (IF sa >= 0 THEN sa \div Pow2(n) ELSE -(((-sa) + Pow2(n) - 1) \div Pow2(n)))
        /\ SatNat(FromNat(n, 4), w) = (IF n >= w THEN w ELSE n)
  /\ \A n \in 0..(w - 1) :
        /\ ToNat(Rol(a, n)) = (((ua * Pow2(n)) % M) + (ua \div Pow2(w - n))) % M
        /\ Ror(Rol(a, n), n) = a
  /\ (ub # 0) => /\ ToNat(UDiv(a, b)) = ua \div ub
                 /\ ToNat(URem(a, b)) = ua % ub
                 /\ ToInt(SDiv(a, b)) = (IF TDiv(sa, sb) = Pow2(w - 1) THEN -Pow2(w - 1) ELSE TDiv(sa, sb))
                 /\ ToInt(SRem(a, b)) = TRem(sa, sb)
                 /\ ToInt(SDivFloor(a, b)) = (IF FDiv(sa, sb) = Pow2(w - 1) THEN -Pow2(w - 1) ELSE FDiv(sa, sb))
                 /\ ToInt(SRemFloor(a, b)) = FRem(sa, sb)
  /\ FromNat(ua, w) = a /\ FromInt(sa, w) = a
  /\ \A n \in 1..(w + 3) : ToInt(Sext(a, w + n)) = sa /\ ToNat(Zext(a, w + n)) = ua
  /\ \A p \in 0..(w - 1) : \A n \in 1..(w - p) : ToNat(Slice(a, p, n)) = (ua \div Pow2(p)) % Pow2(n)
  /\ ToNat(Concat(a, b)) = ua + M * ub
=============================================================================
