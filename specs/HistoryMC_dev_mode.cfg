CONSTANTS
  NBlocks = 6
  Regs = {"r1","r2","r3"}
  MaxLen = 5
  Dev = {"ModeWrite"}
  Gen = FALSE
  MaxOther = 5
INIT Init
NEXT Next
INVARIANT HistoryFree
CHECK_DEADLOCK FALSE
