\* C07 self-test: the seeded fault Mod1Disp4 must violate an invariant
CONSTANTS
  Dev = "Mod1Disp4"
  Modes = {32, 64}
  MaxPfx = 1
  PfxSeqs = {}
  Hist = FALSE
INIT Init
NEXT NextF
INVARIANTS TypeOK LenBound DispRule DispRule3 ImmRule Deterministic
PROPERTY Progress
