\* generator: every history of 4 calls over the 10 input classes (design as repaired in 2d3ae16: __i is reset when an exception propagates)
CONSTANTS
  Alphabet = {}
  MaxLen = 0
  Classes = {"valid", "invalid", "truncated", "rejecting", "raising", "prefix_only", "prefix_truncated", "prefix_invalid", "prefix_valid", "prefix_raising"}
  MaxCalls = 4
  GenHist = TRUE
  RaiseAfterPrefix = TRUE
  Dev = {"ResetOnRaise"}
INIT Init
NEXT Next
CONSTRAINT Emit
CHECK_DEADLOCK FALSE
