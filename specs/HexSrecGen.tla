------------------------------ MODULE HexSrecGen ------------------------------
(***************************************************************************)
(* C14 (HEX / S-record): generator of record streams, design checks (M)    *)
(* and emission for the replayer (G).                                      *)
(*   RoundTrip : Parse(Line(r)) gives r back, for every generated record.  *)
(*   Detect    : every single-character substitution in every line is      *)
(*               rejected by Parse - except, for S-records, a substitution *)
(*               of the type digit, which the checksum does not cover.     *)
(***************************************************************************)
EXTENDS HexSrec, Json

CONSTANTS Fmts, Seeds, MaxRecs, AllowMixed, NCorrupt, Lens, Subst0, WithRelocs

VARIABLES fmt, rs, rnd, st
vars == <<fmt, rs, rnd, st>>

Rb(x, k)    == RndByte(LcgAt(x, k))
Rd(x, k, w) == Tup([i \in 1..w |-> Rb(x, k + i)])
Adv(x)      == LcgAt(x, 47)
SeedRange   == 0..127

NData == Cardinality({k \in DOMAIN rs : IF fmt = "hex" THEN rs[k].type = 0 ELSE rs[k].type \in {1, 2, 3}})
Has(ty) == \E k \in DOMAIN rs : rs[k].type = ty

HexTypes == {0, 0, 2, 3, 4, 5}
NewHex(ty, len) ==
  CASE ty = 0 -> LET a == (256 * Rb(rnd, 1) + Rb(rnd, 2)) IN
                 [type |-> 0, addr |-> IF a + len > 65536 THEN 65536 - len ELSE a, data |-> Rd(rnd, 2, len)]
    [] ty = 2 -> [type |-> 2, addr |-> 0, data |-> <<Rb(rnd, 1) % 16, Rb(rnd, 2)>>]
    [] ty = 4 -> [type |-> 4, addr |-> 0, data |-> IF Rb(rnd, 1) % 3 = 0 THEN <<0, Rb(rnd, 2) % 4>> ELSE Rd(rnd, 2, 2)]
    [] ty = 3 -> [type |-> 3, addr |-> 0, data |-> Rd(rnd, 2, 4)]
    [] OTHER  -> [type |-> 5, addr |-> 0, data |-> Rd(rnd, 2, 4)]
NewSrec(ty, len) ==
  LET al == SrecAddrLen(ty) IN
  CASE ty \in {1, 2, 3} -> [type |-> ty, addr |-> Widen(Rd(rnd, 1, al), 4), data |-> Rd(rnd, 6, len)]
    [] ty = 0           -> [type |-> 0, addr |-> <<0, 0, 0, 0>>, data |-> Rd(rnd, 6, len)]
    [] ty \in {5, 6}    -> [type |-> ty, addr |-> Digits(NData, 4), data |-> <<>>]
    [] OTHER            -> [type |-> ty, addr |-> IF Rb(rnd, 5) % 4 = 0 THEN <<0, 0, 0, 0>> ELSE Widen(Rd(rnd, 1, al), 4), data |-> <<>>]

Init == /\ fmt \in Fmts /\ rnd \in Seeds /\ rs = <<>> /\ st = "body"
\* fmt = "raw" (C15 only): the file is its own memory image at address 0 (first byte 0x90 so that no format claims it)
AddRaw ==
  /\ st = "body" /\ fmt = "raw"
  /\ \E len \in Lens : rs' = << [type |-> 0, addr |-> 0, data |-> <<144>> \o Rd(rnd, 1, 13 * len + (Rb(rnd, 2) % 5))] >>
  /\ rnd' = Adv(rnd) /\ st' = "done" /\ UNCHANGED fmt
AddRec ==
  /\ st = "body" /\ fmt # "raw" /\ Len(rs) < MaxRecs
  /\ \E len \in Lens :
     \/ /\ fmt = "hex"
        /\ \E ty \in {0, 2, 3, 4, 5} :
             /\ AllowMixed \/ ~((ty = 2 /\ Has(4)) \/ (ty = 4 /\ Has(2)))
             /\ ty \in {3, 5} => ~(Has(3) \/ Has(5))
             /\ ty # 0 => len = CHOOSE l \in Lens : TRUE           \* the length only matters for data records
             /\ rs' = Append(rs, NewHex(ty, len))
     \/ /\ fmt = "srec"
        /\ \E ty \in {0, 1, 2, 3, 5, 6} :
             /\ ty = 0 => rs = <<>>
             /\ ty \in {5, 6} => (len = CHOOSE l \in Lens : TRUE) /\ NData > 0
             /\ rs' = Append(rs, NewSrec(ty, len))
  /\ rnd' = Adv(rnd) /\ UNCHANGED <<fmt, st>>
Finish ==
  /\ st = "body" /\ fmt # "raw" /\ Len(rs) > 0
  /\ \/ fmt = "hex" /\ rs' = Append(rs, [type |-> 1, addr |-> 0, data |-> <<>>])
     \/ fmt = "srec" /\ \E ty \in {7, 8, 9} : rs' = Append(rs, NewSrec(ty, 0))
  /\ rnd' = Adv(rnd) /\ st' = "done" /\ UNCHANGED fmt
Next == AddRec \/ Finish \/ AddRaw
Spec == Init /\ [][Next]_vars

(* ---- M ---------------------------------------------------------------------*)
Alphabet == Subst0   \* the replacement characters tried at every position (a constant: a subset of the printable characters)
SameRec(p, r) == /\ p.ok /\ p.type = r.type /\ p.data = r.data
                 /\ IF fmt = "hex" THEN p.addr = r.addr ELSE p.addr = Widen(r.addr, 4)
RoundTrip == st = "done" /\ fmt # "raw" => \A k \in DOMAIN rs : SameRec(Parse(fmt, Line(fmt, rs[k])), rs[k])
Detect == st = "done" /\ fmt # "raw" =>
  \A k \in DOMAIN rs : LET t == Line(fmt, rs[k]) IN
    \A i \in DOMAIN t : \A c \in Alphabet \ {t[i]} :
       Parse(fmt, Subst(t, i, c)).ok => (fmt = "srec" /\ i = 2)

(* ---- G ---------------------------------------------------------------------*)
ParsedRec(p) == IF p.ok THEN [ok |-> TRUE, why |-> "", type |-> p.type, data |-> p.data, cks |-> p.cks, count |-> p.count,
                              addr |-> IF fmt = "hex" THEN Digits(p.addr, 4) ELSE p.addr]
                ELSE [ok |-> FALSE, why |-> p.why, type |-> 0, data |-> <<>>, cks |-> 0, count |-> 0, addr |-> <<0, 0, 0, 0>>]
AlphaSeq == <<48, 49, 50, 51, 52, 53, 54, 55, 56, 57, 65, 66, 67, 68, 69, 70, 71, 90>>
Corruption(L, j) ==
  LET x  == LcgAt(rnd, 5 * j)
      k  == 1 + ((256 * Rb(x, 1) + Rb(x, 2)) % Len(L))
      i  == 1 + ((256 * Rb(x, 3) + Rb(x, 4)) % Len(L[k]))
      c0 == AlphaSeq[1 + (Rb(x, 5) % Len(AlphaSeq))]
      c  == IF c0 = L[k][i] THEN (IF c0 = 49 THEN 50 ELSE 49) ELSE c0
  IN [line |-> k - 1, pos |-> i - 1, ch |-> c, verdict |-> ParsedRec(Parse(fmt, Subst(L[k], i, c)))]
\* ---- histories after loading (C15): RawExec.relocate(v) moves the image so that its lowest mapped address becomes v
\* and sets the program counter to v; the bytes keep their offsets from the start of the image.  Addresses as 8 digits.
NonEmpty(B) == {k \in DOMAIN B : Len(B[k].d) > 0}
LowestOf(B) == LET K == NonEmpty(B)  k == CHOOSE k \in K : \A j \in K : LeqD(B[k].a, B[j].a) IN Widen(B[k].a, 8)
MovedTo(FB, lo, v) == Tup([k \in 1..Len(FB) |-> [a |-> AddD(v, SubD(Widen(FB[k].a, 8), lo)), d |-> FB[k].d]])
RelocTargets == << <<0, 16 * (1 + (Rb(rnd, 31) % 15)), Rb(rnd, 32) % 128, 0, 0, 0, 0, 0>>,
                   <<Rb(rnd, 33), Rb(rnd, 34), Rb(rnd, 35) % 64, 0, 0, 0, 0, 0>>,
                   <<0, 4 * (Rb(rnd, 36) % 4), 0, 0, 0, 0, 0, 0>> >>
\* (streams with a data record that carries no byte are not relocated: whether an empty record marks the start of the image is not defined)
RelocsOf(B, FB) == IF ~WithRelocs \/ B = <<>> \/ NonEmpty(B) # DOMAIN B THEN <<>>
                  ELSE LET lo == LowestOf(B) IN Tup([i \in 1..3 |-> [v |-> RelocTargets[i], finals |-> MovedTo(FB, lo, RelocTargets[i])]])
EmitRaw == LET d == rs[1].data  blk == << [a |-> <<0, 0, 0, 0>>, d |-> d] >> IN
  PrintT(ToJson([fmt |-> fmt, lines |-> <<d>>, recs |-> <<>>, rt |-> TRUE, blocks |-> blk, finals |-> blk, entry |-> NoEntry,
                 mixed |-> FALSE, corrupt |-> <<>>, relocs |-> RelocsOf(blk, blk),
                 pre |-> <<1, (Len(d) + 1) \div 2, Len(d)>>]))       \* pre: stream positions at which the raw task is also built directly
Emit == st = "done" => IF fmt = "raw" THEN EmitRaw ELSE
  LET L == Tup([k \in 1..Len(rs) |-> Line(fmt, rs[k])])
      D == Decode(fmt, rs)
      FIN == Tup([k \in 1..Len(D.blocks) |->          \* what each block's range reads as once all are written
                   [a |-> D.blocks[k].a, d |-> ViewAfter(Unmapped(Len(D.blocks[k].d)), D.blocks[k].a, D.blocks, 1)]])
  IN PrintT(ToJson([fmt |-> fmt, lines |-> L,
                    recs |-> Tup([k \in 1..Len(rs) |-> ParsedRec(Parse(fmt, L[k]))]),
                    rt |-> \A k \in DOMAIN rs : SameRec(Parse(fmt, L[k]), rs[k]),
                    blocks |-> D.blocks, entry |-> D.entry,
                    finals |-> FIN, relocs |-> RelocsOf(D.blocks, FIN), pre |-> <<>>,
                    mixed |-> (fmt = "hex" /\ HexMixed(rs)),
                    corrupt |-> Tup([j \in 1..NCorrupt |-> Corruption(L, j)])]))
=============================================================================
