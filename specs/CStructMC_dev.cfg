\* self-test: the fault NoTailPad (sizeof not rounded up to the alignment) must violate LayoutOK
CONSTANTS
  RawT = {"B", "I"}
  ArrN = {}
  NestN = {}
  Ords = {""}
  DefOrds = {""}
  DefKinds = {"struct"}
  MaxF = 2
  MaxIF = 0
  MinF = 1
  MaxDepth = 0
  Feat = {}
  BitSplits <- BitSplitsNone
  PS = {32}
  VCs = {"pat"}
  Stride = 1
  Dev = {"NoTailPad"}
  Mode = "mc"
INIT Init
NEXT Next
INVARIANT LayoutOK
INVARIANT SizeOK
INVARIANT RoundTrip
INVARIANT Monotone
CHECK_DEADLOCK FALSE
