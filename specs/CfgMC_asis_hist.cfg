\* the code as it is today, deviation HistCopySlice: TLC must find NoRaise violated
CONSTANTS
  MinN = 3
  MaxN = 3
  Lens = {1, 2, 3}
  Flags = {"n", "c"}
  MaxIns = 2
  MaxLinks = 0
  MaxRe = 0
  Wide = FALSE
  GenHist = FALSE
  Dev = {"HistCopySlice"}
INIT Init
NEXT Next
INVARIANT Disjoint
INVARIANT Covers
INVARIANT FallThrough
INVARIANT NoRaise
INVARIANT NoOverlay
INVARIANT BlocksAreMaximalRuns
CHECK_DEADLOCK FALSE
