\* C15 self-test: a paging loader that does not zero the bss tail (amoco on the unchanged tree) violates Refines
CONSTANTS
  Dev = "NoBssZero"
  Classes = {32, 64}
  Seeds = {7}
  PageSizes = {16, 64, 4096}
  MaxSeg = 2
  Relations = {"apart", "adjacent", "samepage"}
  Tails = {"none", "inpage", "beyond"}
INIT Init
NEXT Next
INVARIANT Refines

CHECK_DEADLOCK FALSE
