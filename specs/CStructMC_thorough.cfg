\* M (thorough, exhaustive, flat): <= 4 members over one type per size class and a byte string, scalars and arrays of 3, both pointer sizes
CONSTANTS
  RawT = {"B", "h", "I", "q", "P", "s"}
  ArrN = {3}
  NestN = {3}
  Ords = {""}
  DefOrds = {""}
  DefKinds = {"struct", "packed", "union"}
  MaxF = 4
  MaxIF = 0
  MinF = 1
  MaxDepth = 0
  Feat = {}
  BitSplits <- BitSplitsNone
  PS = {32, 64}
  VCs = {"pat"}
  Stride = 1
  Dev = {}
  Mode = "mc"
INIT Init
NEXT Next
INVARIANT LayoutOK
INVARIANT SizeOK
INVARIANT RoundTrip
INVARIANT Monotone
CHECK_DEADLOCK FALSE
