-------------------------------- MODULE Bytes --------------------------------
(***************************************************************************)
(* Byte strings as Seq(0..255), and fixed-width unsigned integers as       *)
(* "digits": the little-endian base-256 digit sequence of the value,       *)
(* exactly as wide as the field that holds it (<<0x78,0x56,0x34,0x12>> is  *)
(* the 4-byte value 0x12345678).  TLC integers are 32-bit, file formats    *)
(* have 64-bit fields: all field values therefore travel as digits and     *)
(* are only turned into a TLC integer (ToNat) where they are known to be   *)
(* small (file offsets, counts, sizes).  Arithmetic and comparison on      *)
(* digits (AddD, SubD, LessD) is width-generic.                            *)
(*                                                                         *)
(* Offsets are 0-based (as in the format documents), sequences 1-based.    *)
(* Text (HEX / S-record lines, names) travels as sequences of code points. *)
(***************************************************************************)
EXTENDS Integers, Sequences, TLC

Byte == 0..255
IsBytes(s) == \A i \in DOMAIN s : s[i] \in Byte

\* TLC keeps [i \in 1..n |-> e] as an unevaluated function and re-evaluates e on every application (and the
\* whole function on every Len); Tup forces it into an explicit tuple once.  Semantically the identity.
Tup(f)    == f \o <<>>
Zeros(n)  == Tup([i \in 1..n |-> 0])
Rev(s)    == LET n == Len(s) IN Tup([i \in 1..n |-> s[n + 1 - i]])
Min2(a, b) == IF a < b THEN a ELSE b
Max2(a, b) == IF a > b THEN a ELSE b

InRange(s, off, n) == off >= 0 /\ n >= 0 /\ off + n <= Len(s)
Slice(s, off, n)   == Tup([i \in 1..n |-> s[off + i]])             \* requires InRange(s, off, n)
SliceZ(s, off, n)  == LET m == Len(s) IN Tup([i \in 1..n |-> IF off + i <= m THEN s[off + i] ELSE 0])   \* reads past the end give 0
PadTo(s, n, b)     == LET m == Len(s) IN Tup([i \in 1..Max2(n, m) |-> IF i <= m THEN s[i] ELSE b])
Overlay(s, off, t) == LET m == Len(s)  k == Len(t) IN             \* t written over s at offset off (s grown with 0)
                      Tup([i \in 1..Max2(m, off + k) |->
                            IF i > off /\ i <= off + k THEN t[i - off] ELSE IF i <= m THEN s[i] ELSE 0])

RECURSIVE Flat(_)
Flat(ss) == IF ss = <<>> THEN <<>> ELSE Head(ss) \o Flat(Tail(ss))   \* concatenation of a sequence of sequences

(* ---- digits -------------------------------------------------------------*)
RECURSIVE Digits(_, _)
Digits(n, w) == IF w = 0 THEN <<>> ELSE <<n % 256>> \o Digits(n \div 256, w - 1)    \* n >= 0, truncated to w bytes

FitsNat(d) == \A i \in DOMAIN d : (i > 4 => d[i] = 0) /\ (i = 4 => d[i] < 128)      \* value < 2^31
RECURSIVE ToNat(_)
ToNat(d) == IF d = <<>> THEN 0 ELSE d[1] + 256 * ToNat(Tail(d))                     \* requires FitsNat(d)
IsZeroD(d) == \A i \in DOMAIN d : d[i] = 0

Widen(d, w) == LET m == Len(d) IN Tup([i \in 1..w |-> IF i <= m THEN d[i] ELSE 0])                  \* zero-extend / truncate to w bytes

RECURSIVE AddC(_, _, _, _)
AddC(a, b, i, c) == IF i > Len(a) THEN <<>>
                    ELSE LET s == a[i] + b[i] + c IN <<s % 256>> \o AddC(a, b, i + 1, s \div 256)
AddD(a, b) == AddC(a, Widen(b, Len(a)), 1, 0)                       \* (a + b) mod 2^(8 Len(a))
AddN(a, n) == AddD(a, Digits(n, Len(a)))
RECURSIVE SubC(_, _, _, _)
SubC(a, b, i, c) == IF i > Len(a) THEN <<>>
                    ELSE LET s == a[i] - b[i] - c IN <<(s + 256) % 256>> \o SubC(a, b, i + 1, IF s < 0 THEN 1 ELSE 0)
SubD(a, b) == SubC(a, Widen(b, Len(a)), 1, 0)                       \* (a - b) mod 2^(8 Len(a))
RECURSIVE LessFrom(_, _, _)
LessFrom(a, b, i) == IF i = 0 THEN FALSE
                     ELSE IF a[i] # b[i] THEN a[i] < b[i] ELSE LessFrom(a, b, i - 1)
LessD(a, b) == LET w == Max2(Len(a), Len(b)) IN LessFrom(Widen(a, w), Widen(b, w), w)
LeqD(a, b)  == ~LessD(b, a)
EqD(a, b)   == LET w == Max2(Len(a), Len(b)) IN Widen(a, w) = Widen(b, w)
InD(x, lo, n) == LeqD(lo, x) /\ LessD(SubD(x, lo), n)               \* lo <= x < lo + n  (no wrap-around issue)

(* ---- a sparse byte store seen through a window ---------------------------*)
\* a write is [a |-> start address (digits), d |-> bytes]; a view is the content of [va, va + Len(view)),
\* -1 where nothing was written; Over applies one write to a view, ViewAfter a sequence of writes in order
Over(view, va, w) ==
  LET n == Len(view)  m == Len(w.d) IN
  IF LeqD(va, w.a) THEN                                             \* the write starts inside or after the range
       LET d == SubD(w.a, va) IN
       IF ~FitsNat(d) \/ ToNat(d) >= n THEN view
       ELSE LET o == ToNat(d) IN Tup([i \in 1..n |-> IF i > o /\ i <= o + m THEN w.d[i - o] ELSE view[i]])
  ELSE LET e == SubD(va, w.a) IN                                    \* the write starts before the range
       IF ~FitsNat(e) \/ ToNat(e) >= m THEN view
       ELSE LET o == ToNat(e) IN Tup([i \in 1..n |-> IF o + i <= m THEN w.d[o + i] ELSE view[i]])
RECURSIVE ViewAfter(_, _, _, _)
ViewAfter(view, va, W, k) == IF k > Len(W) THEN view ELSE ViewAfter(Over(view, va, W[k]), va, W, k + 1)
Unmapped(n) == Tup([i \in 1..n |-> -1])

(* ---- integer fields in a byte string ------------------------------------*)
Order == {"LE", "BE"}
Put(d, order)            == IF order = "BE" THEN Rev(d) ELSE d       \* digits -> bytes as stored
Get(s, off, w, order)    == Put(Slice(s, off, w), order)             \* bytes as stored -> digits
GetZ(s, off, w, order)   == Put(SliceZ(s, off, w), order)
U(s, off, w, order)      == ToNat(Get(s, off, w, order))             \* only for values < 2^31
LE(s) == ToNat(s)
BE(s) == ToNat(Rev(s))

(* ---- sums and checksums --------------------------------------------------*)
RECURSIVE SumFrom(_, _)
SumFrom(s, i) == IF i > Len(s) THEN 0 ELSE s[i] + SumFrom(s, i + 1)
Sum(s) == SumFrom(s, 1)
Sum8(s)         == Sum(s) % 256
TwosCompl8(s)   == (256 - Sum8(s)) % 256        \* Intel HEX: sum of all record bytes including it is 0 mod 256
OnesCompl8(s)   == 255 - Sum8(s)                \* S-record: sum of count, address, data and it is 0xFF mod 256

(* ---- NUL-terminated strings ---------------------------------------------*)
RECURSIVE CStrLen(_, _, _)
CStrLen(s, off, lim) == IF off >= lim \/ off >= Len(s) \/ s[off + 1] = 0 THEN 0 ELSE 1 + CStrLen(s, off + 1, lim)
CStr(s, off, lim) == Slice(s, off, CStrLen(s, off, lim))            \* the string at off, not reading at or past lim

(* ---- hexadecimal text (code points) --------------------------------------*)
HexVal(c) == IF c >= 48 /\ c <= 57 THEN c - 48
             ELSE IF c >= 65 /\ c <= 70 THEN c - 55
             ELSE IF c >= 97 /\ c <= 102 THEN c - 87 ELSE -1
IsHex(t)  == \A i \in DOMAIN t : HexVal(t[i]) >= 0
HexChr(v) == IF v < 10 THEN 48 + v ELSE 55 + v                      \* upper case
HexOfBytes(s) == Tup([i \in 1..2 * Len(s) |-> IF i % 2 = 1 THEN HexChr(s[(i + 1) \div 2] \div 16)
                                                           ELSE HexChr(s[i \div 2] % 16)])
BytesOfHex(t) == Tup([i \in 1..Len(t) \div 2 |-> 16 * HexVal(t[2 * i - 1]) + HexVal(t[2 * i])])   \* requires IsHex(t)


(* ---- structures: layout tables ---------------------------------------------*)
(* A layout is a sequence of fields [n |-> name, w |-> width in bytes], laid out back to back (the on-disk  *)
(* formats modelled here are packed and naturally aligned by construction).  A structure value is a record   *)
(* [name |-> digits].                                                                                         *)
F(n, w) == [n |-> n, w |-> w]
RECURSIVE OffsetOf(_, _)
OffsetOf(L, k) == IF k = 1 THEN 0 ELSE OffsetOf(L, k - 1) + L[k - 1].w     \* offset of the k-th field
SizeOf(L)  == OffsetOf(L, Len(L) + 1)
Names(L)   == {L[k].n : k \in DOMAIN L}
RECURSIVE PackFrom(_, _, _, _)
PackFrom(L, rec, ord, k) == IF k > Len(L) THEN <<>> ELSE Put(Widen(rec[L[k].n], L[k].w), ord) \o PackFrom(L, rec, ord, k + 1)
Pack(L, rec, ord) == PackFrom(L, rec, ord, 1)
\* the record [field name |-> digits] read at offset off (built explicitly with :> and @@ so that TLC holds
\* an evaluated record, not a function it re-evaluates on every field access)
RECURSIVE UnpackFrom(_, _, _, _, _)
UnpackFrom(L, b, off, ord, k) ==
  IF k = Len(L) THEN L[k].n :> GetZ(b, off, L[k].w, ord)
  ELSE (L[k].n :> GetZ(b, off, L[k].w, ord)) @@ UnpackFrom(L, b, off + L[k].w, ord, k + 1)
Unpack(L, b, off, ord) == UnpackFrom(L, b, off, ord, 1)


(* ---- building a file from positioned chunks ---------------------------------*)
(* chunks: sequence of <<position, bytes>>, pairwise disjoint; the space between them is filled with a      *)
(* position-dependent pseudo-random background (so that a reader using a wrong offset reads wrong values).  *)
RECURSIVE SetToSeq(_)
SetToSeq(S) == IF S = {} THEN <<>> ELSE LET m == CHOOSE x \in S : \A y \in S : x <= y IN <<m>> \o SetToSeq(S \ {m})
Fill(seed, i) == ((((i % 4093) * 89 + seed) * 57) \div 8 + i) % 256      \* background byte at offset i

\* the file: the non-empty chunks in position order, the space between them filled with background bytes
RECURSIVE SortChunks(_)
SortChunks(S) == IF S = {} THEN <<>>
                 ELSE LET m == CHOOSE c \in S : \A d \in S : c[1] <= d[1] IN <<m>> \o SortChunks(S \ {m})
FillRange(seed, a, z) == Tup([i \in 1..(z - a) |-> Fill(seed, a + i - 1)])       \* background bytes of offsets a..z-1
RECURSIVE Lay(_, _, _, _, _)
Lay(C, k, cur, seed, size) ==
  IF k > Len(C) THEN FillRange(seed, cur, size)
  ELSE FillRange(seed, cur, C[k][1]) \o C[k][2] \o Lay(C, k + 1, C[k][1] + Len(C[k][2]), seed, size)
LayOut(C, seed, size) == Lay(SortChunks({C[k] : k \in {j \in DOMAIN C : Len(C[j][2]) > 0}}), 1, 0, seed, size)
ChunksDisjoint(C, size) ==
  /\ \A k \in DOMAIN C : C[k][1] >= 0 /\ C[k][1] + Len(C[k][2]) <= size
  /\ \A k, j \in DOMAIN C : k < j /\ Len(C[k][2]) > 0 /\ Len(C[j][2]) > 0
                            => (C[k][1] + Len(C[k][2]) <= C[j][1] \/ C[j][1] + Len(C[j][2]) <= C[k][1])

(* ---- a small deterministic pseudo-random stream (for generator configs) --*)
LcgNext(x) == (x * 75 + 74) % 65537                                 \* 16-bit Lehmer generator, fits 32-bit ints
RECURSIVE LcgAt(_, _)
LcgAt(x, k) == IF k = 0 THEN x ELSE LcgAt(LcgNext(x), k - 1)
RndByte(x) == (x \div 7) % 256
=============================================================================
