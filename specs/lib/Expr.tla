-------------------------------- MODULE Expr --------------------------------
(***************************************************************************)
(* Reference semantics of amoco expression trees (cas/expressions.py) over  *)
(* bit-vectors. A tree is a record, exactly what harness/ser.py `tree()`    *)
(* writes for a real object (attribute reads only) and what the generator   *)
(* specs build for themselves:                                              *)
(*   [k |-> "cst",  w, sf, v]                 v : bits, LSB first            *)
(*   [k |-> "reg",  w, sf, n]                 n : name                       *)
(*   [k |-> "slc",  w, sf, x, pos]                                           *)
(*   [k |-> "comp", w, sf, parts]             parts : <<[pos, t]>> by pos     *)
(*   [k |-> "tst",  w, sf, c, l, r]                                          *)
(*   [k |-> "op",   w, sf, s, l, r]           s : operator symbol            *)
(*   [k |-> "uop",  w, sf, s, r]                                             *)
(*   [k |-> "ptr",  w, sf, base, dv]          dv : displacement, w bits      *)
(*   [k |-> "mem",  w, sf, a, en, mods]       a : address tree               *)
(*   [k |-> "vec",  w, sf, l]   [k |-> "top", w]   [k |-> "bot", w]          *)
(*   [k |-> "xt",   w, sg, x]                 zero (sg=0) / sign extension   *)
(*                                            (generator side only)          *)
(* sf is 0/1. An "op" node may carry lsf/rsf: the flags its operands showed *)
(* when the operator was applied (generator side); otherwise the flags of   *)
(* the child records are used.                                              *)
(*                                                                          *)
(* Eval(e, env, D) \in bits \cup {Unknown}.  env = [regs |-> [name -> bits],*)
(* mem |-> [address (Nat) -> 0..255]].  Unknown is absorbing; it stands for *)
(* top / unmapped registers or memory / division by zero / mixed            *)
(* signedness / rotation amounts >= width: everything the properties leave  *)
(* unconstrained. D is a set of named deviations (known defects of amoco);  *)
(* the reference is D = {}.                                                 *)
(***************************************************************************)
EXTENDS BitVec, FiniteSets, TLC

Unknown == <<2>>
IsU(x) == x = Unknown
Has(e, f) == f \in DOMAIN e

-----------------------------------------------------------------------------
(* Width dictated by construction (C12) *)
RECURSIVE Width(_)
Width(e) ==
  CASE e.k \in {"cst", "reg", "ext", "top", "bot", "mem", "ptr", "vec"} -> e.w
    [] e.k = "slc"  -> e.w
    [] e.k = "comp" -> LET P == e.parts IN
                       IF Len(P) = 0 THEN 0 ELSE P[Len(P)].pos + Width(P[Len(P)].t)
    [] e.k = "tst"  -> Width(e.l)
    [] e.k = "xt"   -> e.w
    [] e.k = "uop"  -> Width(e.r)
    [] e.k = "op"   -> IF e.s \in {"==", "!=", "<", "<=", ">", ">=", "<.", ">=."} THEN 1
                       ELSE IF e.s = "**" THEN 2 * Width(e.l)
                       ELSE Width(e.l)
    [] OTHER -> e.w

(* structural well-formedness: every node's recorded width is the dictated one, operand widths
   agree, slices are inside their operand, compositions tile exactly *)
RECURSIVE WellSized(_)
WellSized(e) ==
  CASE e.k \in {"cst"} -> Len(e.v) = e.w /\ e.w > 0
    [] e.k \in {"reg", "ext", "top", "bot"} -> e.w > 0
    [] e.k = "slc"  -> WellSized(e.x) /\ e.pos >= 0 /\ e.w > 0 /\ e.pos + e.w <= e.x.w
    [] e.k = "comp" -> LET P == e.parts IN
                       /\ Len(P) > 0 /\ P[1].pos = 0
                       /\ \A i \in 1..Len(P) : WellSized(P[i].t)
                       /\ \A i \in 1..(Len(P) - 1) : P[i].pos + P[i].t.w = P[i + 1].pos
                       /\ P[Len(P)].pos + P[Len(P)].t.w = e.w
    [] e.k = "tst"  -> WellSized(e.c) /\ WellSized(e.l) /\ WellSized(e.r) /\ e.c.w = 1
                       /\ e.l.w = e.r.w /\ e.w = e.l.w
    [] e.k = "uop"  -> WellSized(e.r) /\ e.w = e.r.w
    [] e.k = "xt"   -> WellSized(e.x) /\ e.w >= e.x.w
    [] e.k = "op"   -> /\ WellSized(e.l) /\ WellSized(e.r)
                       /\ e.w = Width(e)
                       /\ (e.s \notin {"<<", ">>", ".>>", ">>>", "<<<"} => e.l.w = e.r.w)
    [] e.k = "ptr"  -> WellSized(e.base) /\ e.w = e.base.w
    [] e.k = "mem"  -> WellSized(e.a) /\ e.w > 0
    [] e.k = "vec"  -> \A i \in 1..Len(e.l) : WellSized(e.l[i]) /\ e.l[i].w = e.w
    [] OTHER -> FALSE

RECURSIVE Regs(_)
Regs(e) ==
  CASE e.k \in {"reg", "ext"} -> {<<e.n, e.w>>}
    [] e.k \in {"slc", "xt"}  -> Regs(e.x)
    [] e.k = "comp" -> UNION {Regs(e.parts[i].t) : i \in 1..Len(e.parts)}
    [] e.k = "tst"  -> Regs(e.c) \cup Regs(e.l) \cup Regs(e.r)
    [] e.k = "uop"  -> Regs(e.r)
    [] e.k = "op"   -> Regs(e.l) \cup Regs(e.r)
    [] e.k = "ptr"  -> Regs(e.base)
    [] e.k = "mem"  -> Regs(e.a)
    [] e.k = "vec"  -> UNION {Regs(e.l[i]) : i \in 1..Len(e.l)}
    [] OTHER -> {}

(* substitution of a register by a tree (evaluation in a symbolic environment) *)
RECURSIVE Subst(_, _, _)
Subst(e, n, t) ==
  CASE e.k = "reg" -> IF e.n = n THEN t ELSE e
    [] e.k \in {"slc", "xt"} -> [e EXCEPT !.x = Subst(e.x, n, t)]
    [] e.k = "comp" -> [e EXCEPT !.parts = [i \in 1..Len(e.parts) |-> [e.parts[i] EXCEPT !.t = Subst(e.parts[i].t, n, t)]]]
    [] e.k = "tst" -> [e EXCEPT !.c = Subst(e.c, n, t), !.l = Subst(e.l, n, t), !.r = Subst(e.r, n, t)]
    [] e.k = "uop" -> [e EXCEPT !.r = Subst(e.r, n, t)]
    [] e.k = "op" -> [e EXCEPT !.l = Subst(e.l, n, t), !.r = Subst(e.r, n, t)]
    [] OTHER -> e

-----------------------------------------------------------------------------
(* Signedness of an order/divide/widening operator, from the flags its operands show.
   "s" signed, "u" unsigned, "x" mixed (outside the claim). A constant operand whose top bit is
   clear reads the same either way and takes the other operand's reading. *)
CstTopClear(t) == t.k = "cst" /\ Msb(t.v) = 0
(* the flag an operand shows: 0/1, or 2 = not unambiguous. A conditional whose own flag differs from
   the flags of its branches is not an unambiguous declaration (amoco evaluates it to the chosen
   branch, flag included) *)
RECURSIVE ShownFlag(_)
ShownFlag(t) == IF t.k = "tst"
                THEN (IF ShownFlag(t.l) = t.sf /\ ShownFlag(t.r) = t.sf THEN t.sf ELSE 2)
                ELSE t.sf
Lsf(e) == IF Has(e, "lsf") THEN e.lsf ELSE ShownFlag(e.l)
Rsf(e) == IF Has(e, "rsf") THEN e.rsf ELSE ShownFlag(e.r)
(* lc / rc (generator side): the operand OBJECT was a constant with its top bit clear when the
   operator was applied *)
Lc(e) == IF Has(e, "lc") THEN e.lc = 1 ELSE CstTopClear(e.l)
Rc(e) == IF Has(e, "rc") THEN e.rc = 1 ELSE CstTopClear(e.r)
Sg(e) ==
  LET lsf == Lsf(e) rsf == Rsf(e)
  IN IF lsf = 2 \/ rsf = 2 THEN "x"
     ELSE IF lsf = rsf THEN (IF lsf = 1 THEN "s" ELSE "u")
     ELSE IF Lc(e) THEN (IF rsf = 1 THEN "s" ELSE "u")
     ELSE IF Rc(e) THEN (IF lsf = 1 THEN "s" ELSE "u")
     ELSE "x"

SignedOps == {"<", "<=", ">", ">=", "**", "/", "%"}

(* a shift/rotate amount as a natural saturated at cap; -1 when the amount operand is flagged
   signed and negative (an ambiguous amount, outside the claim) *)
Amount(sf, v, cap) == IF sf # 0 /\ Msb(v) = 1 THEN -1 ELSE SatNat(v, cap)

BinOp(e, a, b, D) ==
  LET s == e.s w == Len(a) sg == Sg(e) IN
  CASE s = "+"  -> Add(a, b)
    [] s = "-"  -> Sub(a, b)
    [] s = "*"  -> Mul(a, b)
    [] s = "&"  -> And(a, b)
    [] s = "|"  -> Or(a, b)
    [] s = "^"  -> Xor(a, b)
    [] s = "==" -> B2V(a = b)
    [] s = "!=" -> B2V(a # b)
    [] s = "<." -> IF "LtuGeuSigned" \in D THEN B2V(Slt(a, b)) ELSE B2V(Ult(a, b))
    [] s = ">=." -> IF "LtuGeuSigned" \in D THEN B2V(~Slt(a, b)) ELSE B2V(~Ult(a, b))
    [] s \in {"<", "<=", ">", ">="} ->
         IF sg = "x" THEN Unknown
         ELSE LET lt == IF sg = "s" THEN Slt(a, b) ELSE Ult(a, b)
                  gt == IF sg = "s" THEN Slt(b, a) ELSE Ult(b, a)
              IN (CASE s = "<" -> B2V(lt) [] s = "<=" -> B2V(~gt) [] s = ">" -> B2V(gt) [] s = ">=" -> B2V(~lt))
    [] s = "**" -> IF sg = "x" THEN Unknown ELSE IF sg = "s" THEN Mul2S(a, b) ELSE Mul2U(a, b)
    [] s = "/"  -> IF sg = "x" \/ IsZero(b) THEN Unknown
                   ELSE IF sg = "u" THEN UDiv(a, b)
                   ELSE IF "SignedDivFloor" \in D THEN SDivFloor(a, b) ELSE SDiv(a, b)
    [] s = "%"  -> IF sg = "x" \/ IsZero(b) THEN Unknown
                   ELSE IF sg = "u" THEN URem(a, b)
                   ELSE IF "SignedDivFloor" \in D THEN SRemFloor(a, b) ELSE SRem(a, b)
    [] s \in {"<<", ">>", ".>>"} ->
         LET n == Amount(Rsf(e), b, w) IN
         IF n < 0 THEN Unknown
         ELSE (CASE s = "<<" -> Shl(a, n) [] s = ">>" -> Lshr(a, n) [] s = ".>>" -> Ashr(a, n))
    [] s \in {">>>", "<<<"} ->
         LET n == Amount(Rsf(e), b, w) IN
         IF n < 0 \/ n >= w THEN Unknown
         ELSE IF s = ">>>" THEN Ror(a, n) ELSE Rol(a, n)
    [] OTHER -> Unknown

(* little/big endian assembly of n bytes at natural address ad from env.mem *)
RECURSIVE ByteBits(_, _)
ByteBits(b, i) == IF i = 8 THEN <<>> ELSE <<(b \div Pow2(i)) % 2>> \o ByteBits(b, i + 1)
RECURSIVE LoadR(_, _, _, _, _)
LoadR(mem, ad, n, en, k) ==
  \* k-th byte (0-based) of the VALUE, least significant first
  IF k = n THEN <<>>
  ELSE LET a == IF en = 1 THEN ad + k ELSE ad + (n - 1 - k) IN
       IF a \notin DOMAIN mem THEN Unknown
       ELSE LET rest == LoadR(mem, ad, n, en, k + 1) IN
            IF IsU(rest) THEN Unknown ELSE ByteBits(mem[a], 0) \o rest
(* an address is usable when it fits TLC's integers *)
AddrNat(v) == IF \E i \in 1..Len(v) : i > 30 /\ v[i] = 1 THEN -1 ELSE ToNat(Trunc(v, IF Len(v) < 30 THEN Len(v) ELSE 30))

RECURSIVE Eval(_, _, _), EvalParts(_, _, _, _)
Eval(e, env, D) ==
  CASE e.k = "cst" -> e.v
    [] e.k \in {"reg", "ext"} -> IF e.n \in DOMAIN env.regs THEN env.regs[e.n] ELSE Unknown
    [] e.k = "slc" -> LET x == Eval(e.x, env, D) IN IF IsU(x) THEN Unknown ELSE Slice(x, e.pos, e.w)
    [] e.k = "xt" -> LET x == Eval(e.x, env, D) IN
                     IF IsU(x) THEN Unknown ELSE IF e.sg = 1 THEN Sext(x, e.w) ELSE Zext(x, e.w)
    [] e.k = "comp" -> EvalParts(e.parts, 1, env, D)
    [] e.k = "tst" -> LET c == Eval(e.c, env, D) IN
                      IF IsU(c) THEN Unknown
                      ELSE IF c = <<1>> THEN Eval(e.l, env, D) ELSE Eval(e.r, env, D)
    [] e.k = "uop" -> LET r == Eval(e.r, env, D) IN
                      IF IsU(r) THEN Unknown
                      ELSE (CASE e.s = "-" -> Neg(r) [] e.s = "~" -> Not(r) [] e.s = "+" -> r [] OTHER -> Unknown)
    [] e.k = "op" -> LET a == Eval(e.l, env, D) b == Eval(e.r, env, D) IN
                     IF IsU(a) \/ IsU(b) THEN Unknown ELSE BinOp(e, a, b, D)
    [] e.k = "ptr" -> LET b == Eval(e.base, env, D) IN IF IsU(b) THEN Unknown ELSE Add(b, e.dv)
    [] e.k = "mem" -> LET a == Eval(e.a, env, D) IN
                      IF IsU(a) \/ Len(e.mods) > 0 THEN Unknown
                      ELSE LET ad == AddrNat(a) IN
                           IF ad < 0 THEN Unknown ELSE LoadR(env.mem, ad, e.w \div 8, e.en, 0)
    [] OTHER -> Unknown
EvalParts(P, i, env, D) ==
  IF i > Len(P) THEN <<>>
  ELSE LET v == Eval(P[i].t, env, D) IN
       IF IsU(v) THEN Unknown
       ELSE LET rest == EvalParts(P, i + 1, env, D) IN IF IsU(rest) THEN Unknown ELSE v \o rest

(* some sub-expression is Unknown under env (division by zero in an untaken branch, ...): an
   implementation that evaluates eagerly may raise there without contradicting any value *)
RECURSIVE Poisoned(_, _)
Poisoned(e, env) ==
  \/ IsU(Eval(e, env, {}))
  \/ CASE e.k \in {"slc", "xt"} -> Poisoned(e.x, env)
        [] e.k = "comp" -> \E i \in 1..Len(e.parts) : Poisoned(e.parts[i].t, env)
        [] e.k = "tst" -> Poisoned(e.c, env) \/ Poisoned(e.l, env) \/ Poisoned(e.r, env)
        [] e.k = "uop" -> Poisoned(e.r, env)
        [] e.k = "op" -> Poisoned(e.l, env) \/ Poisoned(e.r, env)
        [] e.k = "ptr" -> Poisoned(e.base, env)
        [] e.k = "mem" -> Poisoned(e.a, env)
        [] OTHER -> FALSE

(* candidate set of a vec (C19) *)
Alts(e, env, D) == IF e.k = "vec" THEN {Eval(e.l[i], env, D) : i \in 1..Len(e.l)} ELSE {Eval(e, env, D)}

(* which single known deviation explains an observed value, "" if none *)
Explains(e, env, got, Devs) ==
  IF \E d \in Devs : Eval(e, env, {d}) = got
  THEN CHOOSE d \in Devs : Eval(e, env, {d}) = got
  ELSE ""
=============================================================================
