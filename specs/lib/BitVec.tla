------------------------------- MODULE BitVec -------------------------------
(***************************************************************************)
(* Fixed-width two's-complement bit-vectors as sequences of bits, least     *)
(* significant bit first: <<b0, b1, ..., b(w-1)>>, each bit in {0,1}.       *)
(* TLC integers are 32-bit, the properties speak about widths up to 128     *)
(* (256 for widening multiply), hence the bit-level definitions: ripple     *)
(* carry, shift-and-add, restoring division. They are width-generic by      *)
(* construction; BitVecMC.tla anchors every operator to ordinary integer    *)
(* arithmetic exhaustively at small widths.                                 *)
(*                                                                          *)
(* Conventions: shift amounts are naturals; Shl/Lshr by >= w give 0, Ashr   *)
(* by >= w gives the sign fill. Signed division truncates toward zero and   *)
(* the remainder takes the sign of the dividend (SMT-LIB bvsdiv/bvsrem, the *)
(* hardware reading). Division by zero is left to the caller (undefined).   *)
(***************************************************************************)
EXTENDS Integers, Sequences

Bit == {0, 1}
BV(w) == [1..w -> Bit]

Zero(w) == [i \in 1..w |-> 0]
Ones(w) == [i \in 1..w |-> 1]
One(w)  == [i \in 1..w |-> IF i = 1 THEN 1 ELSE 0]

RECURSIVE Pow2(_)
Pow2(n) == IF n = 0 THEN 1 ELSE 2 * Pow2(n - 1)

(* conversions, usable only while the value fits TLC's integers (w <= 30) *)
RECURSIVE ToNatR(_, _)
ToNatR(a, i) == IF i > Len(a) THEN 0 ELSE a[i] * Pow2(i - 1) + ToNatR(a, i + 1)
ToNat(a) == ToNatR(a, 1)
FromNat(n, w) == [i \in 1..w |-> (n \div Pow2(i - 1)) % 2]
Msb(a) == IF Len(a) = 0 THEN 0 ELSE a[Len(a)]
ToInt(a) == IF Msb(a) = 1 THEN ToNat(a) - Pow2(Len(a)) ELSE ToNat(a)
FromInt(n, w) == FromNat(n % Pow2(w), w)

(* shift amount as a natural, saturated at cap (enough to know it is >= the width) *)
RECURSIVE SatNatR(_, _, _, _)
SatNatR(a, i, acc, cap) ==
  IF i < 1 THEN acc
  ELSE LET acc2 == 2 * acc + a[i] IN
       IF acc2 >= cap THEN cap ELSE SatNatR(a, i - 1, acc2, cap)
SatNat(a, cap) == SatNatR(a, Len(a), 0, cap)

-----------------------------------------------------------------------------
(* bitwise *)
Not(a)    == [i \in 1..Len(a) |-> 1 - a[i]]
And(a, b) == [i \in 1..Len(a) |-> IF a[i] = 1 /\ b[i] = 1 THEN 1 ELSE 0]
Or(a, b)  == [i \in 1..Len(a) |-> IF a[i] = 1 \/ b[i] = 1 THEN 1 ELSE 0]
Xor(a, b) == [i \in 1..Len(a) |-> IF a[i] # b[i] THEN 1 ELSE 0]

(* structure *)
Slice(a, pos, n)  == [i \in 1..n |-> a[pos + i]]            \* bits pos .. pos+n-1
Concat(lo, hi)    == lo \o hi                               \* lo holds the least significant bits
Zext(a, w)        == [i \in 1..w |-> IF i <= Len(a) THEN a[i] ELSE 0]
Sext(a, w)        == [i \in 1..w |-> IF i <= Len(a) THEN a[i] ELSE Msb(a)]
Trunc(a, w)       == [i \in 1..w |-> a[i]]

-----------------------------------------------------------------------------
(* addition: ripple carry, iterative over bit positions *)
RECURSIVE AddR(_, _, _, _, _)
AddR(a, b, i, c, acc) ==
  IF i > Len(a) THEN acc
  ELSE LET s == a[i] + b[i] + c IN AddR(a, b, i + 1, s \div 2, Append(acc, s % 2))
AddC(a, b, c) == AddR(a, b, 1, c, <<>>)
Add(a, b) == AddC(a, b, 0)
Neg(a)    == AddC(Not(a), Zero(Len(a)), 1)
Sub(a, b) == AddC(a, Not(b), 1)
(* carry out of a + b + c, and signed overflow, for flag computations *)
RECURSIVE CarryR(_, _, _, _)
CarryR(a, b, i, c) == IF i > Len(a) THEN c ELSE CarryR(a, b, i + 1, (a[i] + b[i] + c) \div 2)
CarryOut(a, b, c) == CarryR(a, b, 1, c)

(* comparisons *)
RECURSIVE UltR(_, _, _)
UltR(a, b, i) == IF i < 1 THEN FALSE
                 ELSE IF a[i] # b[i] THEN a[i] < b[i]
                 ELSE UltR(a, b, i - 1)
Ult(a, b) == UltR(a, b, Len(a))
Ule(a, b) == a = b \/ Ult(a, b)
Slt(a, b) == IF Msb(a) # Msb(b) THEN Msb(a) = 1 ELSE Ult(a, b)
Sle(a, b) == a = b \/ Slt(a, b)
IsZero(a) == \A i \in 1..Len(a) : a[i] = 0
B2V(p)    == IF p THEN <<1>> ELSE <<0>>

-----------------------------------------------------------------------------
(* shifts by a natural amount n *)
Shl(a, n)  == [i \in 1..Len(a) |-> IF i - n >= 1 THEN a[i - n] ELSE 0]
Lshr(a, n) == [i \in 1..Len(a) |-> IF i + n <= Len(a) THEN a[i + n] ELSE 0]
Ashr(a, n) == [i \in 1..Len(a) |-> IF i + n <= Len(a) THEN a[i + n] ELSE Msb(a)]
(* rotations, n < width *)
Rol(a, n)  == LET w == Len(a) IN [i \in 1..w |-> a[((i - 1 - n) % w) + 1]]
Ror(a, n)  == LET w == Len(a) IN [i \in 1..w |-> a[((i - 1 + n) % w) + 1]]

-----------------------------------------------------------------------------
(* multiplication: shift and add, result truncated to the width of a *)
RECURSIVE MulR(_, _, _, _)
MulR(a, b, i, acc) ==
  IF i > Len(b) THEN acc
  ELSE MulR(a, b, i + 1, IF b[i] = 1 THEN Add(acc, Shl(a, i - 1)) ELSE acc)
Mul(a, b) == MulR(a, b, 1, Zero(Len(a)))
(* widening multiply: 2w-bit product of the unsigned / signed readings *)
Mul2U(a, b) == LET w == Len(a) IN Mul(Zext(a, 2 * w), Zext(b, 2 * w))
Mul2S(a, b) == LET w == Len(a) IN Mul(Sext(a, 2 * w), Sext(b, 2 * w))

(* unsigned division: restoring, MSB first; divisor must be non-zero *)
RECURSIVE DivR(_, _, _, _, _)
DivR(a, b, i, rem, q) ==
  \* rem has Len(a)+1 bits so that the shifted remainder never overflows
  IF i < 1 THEN <<q, rem>>
  ELSE LET r1 == <<a[i]>> \o SubSeq(rem, 1, Len(rem) - 1)     \* rem * 2 + a[i]
           bz == Zext(b, Len(rem))
       IN IF Ule(bz, r1) THEN DivR(a, b, i - 1, Sub(r1, bz), [q EXCEPT ![i] = 1])
          ELSE DivR(a, b, i - 1, r1, q)
UDivRem(a, b) == DivR(a, b, Len(a), Zero(Len(a) + 1), Zero(Len(a)))
UDiv(a, b) == UDivRem(a, b)[1]
URem(a, b) == Trunc(UDivRem(a, b)[2], Len(a))
Abs(a) == IF Msb(a) = 1 THEN Neg(a) ELSE a
(* signed: truncation toward zero, remainder has the sign of the dividend *)
SDiv(a, b) == LET q == UDiv(Abs(a), Abs(b)) IN IF Msb(a) # Msb(b) THEN Neg(q) ELSE q
SRem(a, b) == LET r == URem(Abs(a), Abs(b)) IN IF Msb(a) = 1 THEN Neg(r) ELSE r
(* floor variants (what Python's // and % compute on the signed readings): used only to *name*
   a known deviation of amoco, never as the reference *)
SDivFloor(a, b) == LET q == SDiv(a, b) r == SRem(a, b) IN
                   IF ~IsZero(r) /\ Msb(r) # Msb(b) THEN Sub(q, One(Len(a))) ELSE q
SRemFloor(a, b) == LET r == SRem(a, b) IN
                   IF ~IsZero(r) /\ Msb(r) # Msb(b) THEN Add(r, b) ELSE r
=============================================================================
