----------------------------- MODULE ImageCheck -----------------------------
(***************************************************************************)
(* Validating a memory image observed on a loaded program against the      *)
(* image its file defines (C15, trace direction).  Shared by the ELF, PE    *)
(* and Mach-O trace specifications.                                         *)
(* I: the expected image, a sequence of [k, va, fs, mem] (segment/section   *)
(* number, virtual address as digits, number of file-backed bytes, bytes). *)
(***************************************************************************)
EXTENDS Integers, Sequences, FiniteSets, TLC, Bytes

(* obs: one [va, cells] per segment of I, cells: one per byte (0..255 a byte, -1 unmapped, -2 some other expression,  *)
(* -3 a byte of an external-symbol expression); exts: [seg, off, name, size] for every external    *)
(* symbol found (seg 0-based, off relative to the segment start).  S: all relocation entries, aw the*)
(* pointer size.  The verdict is "ok" or the first offending byte: a cell that differs from the    *)
(* file's mapping is allowed only inside a slot, and only as the symbol that slot binds.           *)
SlotOffs(seg, S) == {[o |-> ToNat(SubD(S[k].a, seg.va)), name |-> S[k].name, sym |-> S[k].sym] : k \in
                       {k \in DOMAIN S : LeqD(seg.va, S[k].a) /\ FitsNat(SubD(S[k].a, seg.va)) /\ ToNat(SubD(S[k].a, seg.va)) < Len(seg.mem)}}
BadCell(j, seg, cells, exts, SO, aw, dev, devname, i) ==        \* "" if cell i of segment j is acceptable
  LET cover  == {s \in SO : s.sym # 0 /\ s.o < i /\ i <= s.o + aw}
      cover0 == {s \in SO : s.sym = 0 /\ s.o < i /\ i <= s.o + aw} IN
  IF cells[i] = seg.mem[i] THEN ""
  ELSE IF cover # {} THEN
         IF cells[i] = -3 /\ \E s \in cover : \E e \in DOMAIN exts :
                exts[e].seg = j - 1 /\ exts[e].off = s.o /\ exts[e].name = s.name THEN ""
         ELSE IF cells[i] = -3 THEN "SlotHoldsOtherSymbol" ELSE "SlotClobbered"
  ELSE IF dev # <<>> /\ cells[i] = dev[i] THEN devname           \* exactly what the named known deviation produces
  ELSE IF cells[i] = -3 /\ cover0 # {} THEN "ExternalSymbolAtRelocationWithoutSymbol"
  ELSE IF cells[i] = -3 THEN "ExternalSymbolOutsideRelocationSlots"
  ELSE IF i <= seg.fs THEN (IF cells[i] = -1 THEN "FileByteUnmapped" ELSE "FileByte")
  ELSE (IF cells[i] = -1 THEN "BssUnmapped" ELSE "BssNotZero")
SegVerdict(j, seg, cells, exts, S, aw, dev, devname) ==
  IF Len(cells) # Len(seg.mem) THEN [clause |-> "Length", seg |-> j - 1, off |-> 0, got |-> Len(cells), want |-> Len(seg.mem)]
  ELSE LET D  == {i \in 1..Len(cells) : cells[i] # seg.mem[i]}
           SO == SlotOffs(seg, S)
           B  == {i \in D : BadCell(j, seg, cells, exts, SO, aw, dev, devname, i) # ""}
           \* a deviation is attributed to the known one only if every offending byte is explained by it
           N  == {i \in B : BadCell(j, seg, cells, exts, SO, aw, dev, devname, i) # devname}
       IN IF B = {} THEN [clause |-> "ok", seg |-> j - 1, off |-> 0, got |-> 0, want |-> 0]
          ELSE LET C == IF N # {} THEN N ELSE B
                   i == CHOOSE i \in C : \A k \in C : i <= k
               IN [clause |-> BadCell(j, seg, cells, exts, SO, aw, dev, devname, i), seg |-> j - 1, off |-> i - 1, got |-> cells[i], want |-> seg.mem[i]]
ImageVerdicts(I, obs, exts, S, aw, DevI, devname) ==     \* one verdict per segment; DevI[j]: the cells a named known
                                                         \* deviation would leave in segment j (<<>>: none)
  IF Len(obs) # Len(I) THEN << [clause |-> "SegmentCount", seg |-> 0, off |-> 0, got |-> Len(obs), want |-> Len(I)] >>
  ELSE Tup([j \in 1..Len(I) |->
         IF ~EqD(obs[j].va, I[j].va) THEN [clause |-> "SegmentAddress", seg |-> j - 1, off |-> 0, got |-> 0, want |-> 0]
         ELSE SegVerdict(j, I[j], obs[j].cells, exts, S, aw, IF DevI = <<>> THEN <<>> ELSE DevI[j], devname)])
=============================================================================
