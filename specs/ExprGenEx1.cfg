\* exhaustive: every single call on the leaves, widths 1..3
CONSTANTS
  Widths = {1, 2, 3}
  MaxSteps = 1
  MaxW = 8
  FreshOnly = TRUE
  Ops = {"bin", "un", "slice", "compose", "cond", "ext", "subst"}
  Shape <- ShapeAny
  LeafSet = {}
  AutoSimp = TRUE
  MapSpan = 6
  MapSrc = {}
  Rand = FALSE
INIT Init
NEXT Next
CHECK_DEADLOCK FALSE
