CONSTANTS
  B = 256
  MemSize = 10
  PtrVals = {0,1,2,3}
  DataInit <- DataReal
  MaxOps = 2
  Dev = "none"
  Gen = TRUE
  NoAls = {TRUE,FALSE}
  Endians = {"le","be"}
  Menu = {"regs","cst","inc","ld1","ld2","addld","ext","bump","slice","store","ldst","delayed"}
INIT Init
NEXT Next
INVARIANT Lockstep
CONSTRAINT Emit
CHECK_DEADLOCK FALSE
