------------------------------ MODULE PeLoadTrace ------------------------------
(***************************************************************************)
(* C15 (PE), code -> spec: memory images recorded from amoco's win32/win64 *)
(* loaders validated against Image(file bytes) of Pe.tla; the slots of the  *)
(* import address tables may hold the external symbol they bind.            *)
(* TRACE_FILE: [t, bytes, obs, exts, pc, fetch |-> [a, bytes]] per line     *)
(* (see lib/ImageCheck.tla and LoaderTrace.tla).                            *)
(***************************************************************************)
EXTENDS Pe, ImageCheck, Json, IOUtils
Files == ndJsonDeserialize(IOEnv.TRACE_FILE)
VARIABLES tid, done
Init == tid \in 1..Len(Files) /\ done = FALSE
Next == /\ ~done /\ done' = TRUE /\ UNCHANGED tid
        /\ LET f == Files[tid]  b == f.bytes IN
           IF ~IsPE(b) THEN PrintT(ToJson([t |-> f.t, segs |-> <<>>, pc |-> "NotPE", fetch |-> "NotPE", entry |-> <<>>, nslots |-> 0]))
           ELSE LET R == Report(b)  S == ImportSlots(b) IN
                PrintT(ToJson([t |-> f.t, segs |-> ImageVerdicts(Image(b), f.obs, f.exts, S, PW(R.plus), AsIsImage(b), "TailPaddedWithSpaces"),
                               pc |-> IF f.pc = <<>> THEN "PcNotConstant" ELSE IF EqD(f.pc, R.entry) THEN "ok" ELSE "PcIsNotEntry",
                               fetch |-> IF f.fetch.bytes = <<>> \/ f.fetch.bytes = AtAddr(b, f.fetch.a, Len(f.fetch.bytes)) THEN "ok"
                                         ELSE "FetchedBytesDiffer",
                               entry |-> R.entry, nslots |-> Len(S)]))
=============================================================================
