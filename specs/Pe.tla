---------------------------------- MODULE Pe ----------------------------------
(***************************************************************************)
(* The PE/COFF image format at the level properties C14 / C15 speak at     *)
(* (Microsoft PE and COFF specification): MS-DOS header with e_lfanew at   *)
(* 0x3C, "PE\0\0", COFF file header, optional header PE32 (magic 0x10B) or  *)
(* PE32+ (0x20B: no BaseOfData, 8-byte ImageBase and stack/heap sizes),     *)
(* NumberOfRvaAndSizes data directories, section table located at           *)
(* e_lfanew + 24 + SizeOfOptionalHeader.  All integers little-endian.       *)
(*   Report(b)     what the file encodes                                    *)
(*   Encode(A)     the file of an abstract header set A                     *)
(*   SectionsAt / FileOffset   the address queries                          *)
(*   Image(b)      the memory image of the sections (C15)                   *)
(***************************************************************************)
EXTENDS Integers, Sequences, FiniteSets, TLC, Bytes

CONSTANT Dev

CoffL == << F("Machine", 2), F("NumberOfSections", 2), F("TimeDateStamp", 4), F("PointerToSymbolTable", 4),
            F("NumberOfSymbols", 4), F("SizeOfOptionalHeader", 2), F("Characteristics", 2) >>
PW(plus) == IF plus THEN 8 ELSE 4
OptL(plus) ==
  << F("Magic", 2), F("MajorLinkerVersion", 1), F("MinorLinkerVersion", 1), F("SizeOfCode", 4),
     F("SizeOfInitializedData", 4), F("SizeOfUninitializedData", 4), F("AddressOfEntryPoint", 4), F("BaseOfCode", 4) >>
  \o (IF plus THEN <<>> ELSE << F("BaseOfData", 4) >>)
  \o << F("ImageBase", PW(plus)), F("SectionAlignment", 4), F("FileAlignment", 4),
        F("MajorOperatingSystemVersion", 2), F("MinorOperatingSystemVersion", 2), F("MajorImageVersion", 2),
        F("MinorImageVersion", 2), F("MajorSubsystemVersion", 2), F("MinorSubsystemVersion", 2),
        F("Win32VersionValue", 4), F("SizeOfImage", 4), F("SizeOfHeaders", 4), F("CheckSum", 4), F("Subsystem", 2),
        F("DllCharacteristics", 2), F("SizeOfStackReserve", PW(plus)), F("SizeOfStackCommit", PW(plus)),
        F("SizeOfHeapReserve", PW(plus)), F("SizeOfHeapCommit", PW(plus)), F("LoaderFlags", 4),
        F("NumberOfRvaAndSizes", 4) >>
DirL == << F("RVA", 4), F("Size", 4) >>
SecL == << F("Name", 8), F("VirtualSize", 4), F("RVA", 4), F("SizeOfRawData", 4), F("PointerToRawData", 4),
           F("PointerToRelocations", 4), F("PointerToLineNumbers", 4), F("NumberOfRelocations", 2),
           F("NumberOfLineNumbers", 2), F("Characteristics", 4) >>
CoffSize == SizeOf(CoffL)          \* 20
SecSize  == SizeOf(SecL)           \* 40
MaxDirs  == 16

(* ---- Decode ----------------------------------------------------------------*)
Cap(b, d) == IF FitsNat(d) /\ ToNat(d) <= Len(b) THEN ToNat(d) ELSE Len(b)
Lfanew(b) == Cap(b, GetZ(b, 60, 4, "LE"))
IsPE(b) == /\ Len(b) >= 64 /\ b[1] = 77 /\ b[2] = 90
           /\ Lfanew(b) + 24 <= Len(b)
           /\ SliceZ(b, Lfanew(b), 4) = <<80, 69, 0, 0>>
CoffOf(b) == Unpack(CoffL, b, Lfanew(b) + 4, "LE")
OptOff(b) == Lfanew(b) + 4 + CoffSize
MagicOf(b) == ToNat(GetZ(b, OptOff(b), 2, "LE"))
PlusOf(b) == IF Dev = "PlusAsPE32" THEN FALSE ELSE MagicOf(b) = 523          \* 0x20B
OptOf(b) == Unpack(OptL(PlusOf(b)), b, OptOff(b), "LE")
NDirs(b) == LET n == OptOf(b).NumberOfRvaAndSizes IN IF FitsNat(n) /\ ToNat(n) <= MaxDirs THEN ToNat(n) ELSE MaxDirs
DirsOf(b) == LET o == OptOff(b) + SizeOf(OptL(PlusOf(b))) IN
             Tup([k \in 1..NDirs(b) |-> Unpack(DirL, b, o + 8 * (k - 1), "LE")])
SecOff(b) == OptOff(b) + ToNat(CoffOf(b).SizeOfOptionalHeader)
SecsOf(b) == Tup([k \in 1..ToNat(CoffOf(b).NumberOfSections) |-> Unpack(SecL, b, SecOff(b) + SecSize * (k - 1), "LE")])

Report(b) ==
  LET o == OptOf(b) IN
  [lfanew |-> Lfanew(b), coff |-> CoffOf(b), plus |-> PlusOf(b), opt |-> o, dirs |-> DirsOf(b), secs |-> SecsOf(b),
   base |-> Widen(o.ImageBase, 8), entry |-> AddD(Widen(o.ImageBase, 8), o.AddressOfEntryPoint)]

(* ---- queries (rva: 4-byte digits) ---------------------------------------------*)
SectionsAt(R, rva) == {i \in DOMAIN R.secs : InD(rva, R.secs[i].RVA, R.secs[i].VirtualSize)}
RawSectionsAt(R, rva) == {i \in DOMAIN R.secs : InD(rva, R.secs[i].RVA, R.secs[i].VirtualSize)
                                              /\ InD(rva, R.secs[i].RVA, R.secs[i].SizeOfRawData)}
FileOffsetIn(R, i, rva) == AddD(R.secs[i].PointerToRawData, SubD(rva, R.secs[i].RVA))
Query(R, rva) ==
  LET S == SectionsAt(R, rva)  W == RawSectionsAt(R, rva) IN
  [rva |-> rva, va |-> AddD(R.base, rva), secs |-> SetToSeq({i - 1 : i \in S}),
   fo |-> IF W = {} THEN <<>> ELSE FileOffsetIn(R, CHOOSE i \in W : \A j \in W : i <= j, rva)]

(* ---- memory image of the sections (C15) ----------------------------------------*)
SecMem(b, s) ==
  LET off == Cap(b, s.PointerToRawData)  raw == Cap(b, s.SizeOfRawData)
      vs  == IF FitsNat(s.VirtualSize) THEN ToNat(s.VirtualSize) ELSE 0
  IN Tup([i \in 1..vs |-> IF i <= raw /\ off + i <= Len(b) THEN b[off + i] ELSE 0])
Image(b) == LET R == Report(b) IN
  Tup([k \in 1..Len(R.secs) |->
        [k |-> k - 1, va |-> AddD(R.base, R.secs[k].RVA),
         fs |-> Min2(Cap(b, R.secs[k].SizeOfRawData), IF FitsNat(R.secs[k].VirtualSize) THEN ToNat(R.secs[k].VirtualSize) ELSE 0),
         mem |-> SecMem(b, R.secs[k])]])
\* the named deviation of the unchanged tree: the tail beyond SizeOfRawData padded with spaces instead of zeros
AsIsImage(b) == LET I == Image(b) IN Tup([k \in 1..Len(I) |-> Tup([i \in 1..Len(I[k].mem) |-> IF i <= I[k].fs THEN I[k].mem[i] ELSE 32])])
AtAddr(b, a, n) ==              \* the bytes the file places at absolute address a (8-byte digits), at most n
  LET I == Image(b)  S == {k \in DOMAIN I : InD(a, I[k].va, Digits(Len(I[k].mem), 8))} IN
  IF S = {} THEN <<>> ELSE LET k == CHOOSE k \in S : TRUE  o == ToNat(SubD(a, I[k].va))
                           IN SubSeq(I[k].mem, o + 1, Min2(Len(I[k].mem), o + n))

FileBackedFrom(b, a) ==       \* how many of the bytes from absolute address a on are file-backed
  LET I == Image(b)  S == {k \in DOMAIN I : InD(a, I[k].va, Digits(I[k].fs, 8))} IN
  IF S = {} THEN 0 ELSE LET k == CHOOSE k \in S : TRUE IN I[k].fs - ToNat(SubD(a, I[k].va))

(* ---- imports: the pointer-sized slots of the import address tables and the symbols they bind ---------------*)
(* Import directory (data directory 1): 20-byte descriptors (ImportLookupTableRVA, TimeDateStamp, ForwarderChain,  *)
(* NameRVA, ImportAddressTableRVA) up to an all-zero one; per descriptor the lookup table (or the address table   *)
(* when the lookup RVA is 0): pointer-sized entries up to a zero one; top bit set: import by ordinal (low 16 bits), *)
(* else RVA of a hint/name entry (2-byte hint, NUL-terminated name).  RVAs are read through the section table.     *)
RvaToOff(R, rva) == LET W == RawSectionsAt(R, rva) IN
  IF W = {} THEN -1 ELSE ToNat(FileOffsetIn(R, CHOOSE i \in W : \A j \in W : i <= j, rva))
StrAtRva(b, R, rva) == LET o == RvaToOff(R, rva) IN IF o < 0 THEN <<>> ELSE CStr(b, o, Len(b))
ImpL == << F("ILT", 4), F("TimeDateStamp", 4), F("ForwarderChain", 4), F("NameRVA", 4), F("IAT", 4) >>
RECURSIVE Descs(_, _, _, _)
Descs(b, o, k, lim) ==                 \* descriptors from file offset o
  IF k >= lim \/ o < 0 \/ o + 20 > Len(b) THEN <<>>
  ELSE LET d == Unpack(ImpL, b, o, "LE") IN
       IF \A n \in DOMAIN d : IsZeroD(d[n]) THEN <<>> ELSE <<d>> \o Descs(b, o + 20, k + 1, lim)
RECURSIVE Thunks(_, _, _, _, _)
Thunks(b, o, pw, k, lim) ==            \* lookup entries (digits) from file offset o
  IF k >= lim \/ o < 0 \/ o + pw > Len(b) THEN <<>>
  ELSE LET t == Get(b, o, pw, "LE") IN IF IsZeroD(t) THEN <<>> ELSE <<t>> \o Thunks(b, o + pw, pw, k + 1, lim)
Hash == 35    ColonC == 58
RECURSIVE DecText(_)
DecText(n) == IF n < 10 THEN <<48 + n>> ELSE DecText(n \div 10) \o <<48 + (n % 10)>>
ImportSlots(b) ==
  LET R == Report(b)  pw == PW(R.plus) IN
  IF Len(R.dirs) < 2 \/ IsZeroD(R.dirs[2].RVA) THEN <<>>
  ELSE LET D == Descs(b, RvaToOff(R, R.dirs[2].RVA), 0, 256) IN
    Flat(Tup([i \in 1..Len(D) |->
      LET dll == StrAtRva(b, R, D[i].NameRVA)
          src == IF IsZeroD(D[i].ILT) THEN D[i].IAT ELSE D[i].ILT
          T   == Thunks(b, RvaToOff(R, src), pw, 0, 4096)
      IN Tup([k \in 1..Len(T) |->
           [a |-> AddD(R.base, AddN(D[i].IAT, pw * (k - 1))), sym |-> 1,
            name |-> dll \o <<ColonC, ColonC>> \o
                     (IF T[k][pw] >= 128 THEN <<Hash>> \o DecText(T[k][1] + 256 * T[k][2])
                      ELSE StrAtRva(b, R, AddN(SubSeq(T[k], 1, 4), 2)))]])]))

(* ---- Encode --------------------------------------------------------------------*)
(* A = [plus, lfanew, coff (record of CoffL), opt (record of OptL(plus)), dirs (Seq of DirL records),          *)
(*      secs (Seq of [hdr |-> SecL record, data |-> bytes placed at hdr.PointerToRawData]), stub (bytes 2..59), *)
(*      size, fill].  coff.NumberOfSections / SizeOfOptionalHeader and opt.NumberOfRvaAndSizes are taken from A *)
(* as given (the generator sets them consistently).                                                            *)
OptSize(A) == SizeOf(OptL(A.plus)) + 8 * Len(A.dirs)
Chunks(A) ==
  << << 0, <<77, 90>> \o A.stub \o Digits(A.lfanew, 4) >>,
     << A.lfanew, <<80, 69, 0, 0>> \o Pack(CoffL, A.coff, "LE") \o Pack(OptL(A.plus), A.opt, "LE")
                  \o Flat(Tup([k \in 1..Len(A.dirs) |-> Pack(DirL, A.dirs[k], "LE")])) >> >>
  \o Tup([k \in 1..Len(A.secs) |-> << A.lfanew + 24 + ToNat(A.coff.SizeOfOptionalHeader) + SecSize * (k - 1),
                                      Pack(SecL, A.secs[k].hdr, "LE") >>])
  \o Tup([k \in 1..Len(A.secs) |-> << ToNat(A.secs[k].hdr.PointerToRawData), A.secs[k].data >>])
Disjoint(A) == ChunksDisjoint(Chunks(A), A.size)
Encode(A) == LayOut(Chunks(A), A.fill, A.size)
Expected(A) ==
  [lfanew |-> A.lfanew, coff |-> A.coff, plus |-> A.plus, opt |-> A.opt, dirs |-> A.dirs,
   secs |-> Tup([k \in 1..Len(A.secs) |-> A.secs[k].hdr]),
   base |-> Widen(A.opt.ImageBase, 8), entry |-> AddD(Widen(A.opt.ImageBase, 8), A.opt.AddressOfEntryPoint)]
=============================================================================
