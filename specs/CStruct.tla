------------------------------- MODULE CStruct -------------------------------
(***************************************************************************)
(* C16 - amoco's structure-definition language (system/structs) against    *)
(* the C ABI: natural alignment, packed = no alignment, unions, arrays,     *)
(* nested definitions, bitfield storage units, counted / bound / LEB128 /   *)
(* terminated variable-length fields.                                       *)
(*                                                                          *)
(* A definition is a record  [kind, packed, ord, fs]  with fs a sequence of *)
(* fields  [k, t, n, o, d, bits, sp, ct, ref, td]  (all keys always there): *)
(*   k    "raw" | "nest" | "bits" | "var" | "cnt" | "bound" | "leb"        *)
(*   t    raw type letter of the struct module ("" for nest)                *)
(*   n    element count, 0 = a single object                                *)
(*   o    byte order written on the field: "" (none) | "<" | ">"           *)
(*   d    nested definition (NoDef unless k = "nest")                       *)
(*   bits widths of the sub-fields of a bitfield storage unit, LSB first    *)
(*   sp   bitfield written one sub-field per line (the parser re-joins them)*)
(*   ct   counter type letter of a counted field                            *)
(*   ref  index of the field a bound field takes its count from             *)
(*   td   the raw type is reached through a typedef                         *)
(*                                                                          *)
(* Layout (SizeOf / AlignOf / Offsets) is the C rule; Pack / Unpack give    *)
(* the byte image (padding = 0) and the values read from a byte image.      *)
(* The layout rule is bound to gcc by specs/CStructTrace.tla + corpus/cabi. *)
(*                                                                          *)
(* All operators take a deviation set D.  D = {} is the meaning of the      *)
(* property.  The named deviations describe, one by one, what the pinned    *)
(* amoco tree does differently (known findings); a failing replay is        *)
(* attributed to a set of deviations only if the values amoco produced are  *)
(* exactly the ones this module computes with that set enabled.             *)
(***************************************************************************)
EXTENDS Integers, Sequences, FiniteSets, TLC, Json, IOUtils

CONSTANTS RawT,      \* raw type letters used for scalar / array fields
          ArrN,      \* array counts of raw members
          NestN,     \* array counts of members that are definitions (needs "nestarr" in Feat)
          Ords,      \* subset of {"", "<", ">"}: order literal on fields
          DefOrds,   \* subset of {"", ">"}: order= keyword of a definition
          DefKinds,  \* subset of {"struct", "packed", "union"}
          MaxF,      \* max fields of the top-level definition
          MaxIF,     \* max fields of a nested definition
          MinF,      \* min fields of the top-level definition
          MaxDepth,  \* nesting depth (0 = flat)
          Feat,      \* subset of {"bits","typedef","nestarr","vararr","var","cnt","bound","leb"}
                     \* ("vararr": arrays of definitions that have variable-length members)
          BitSplits, \* set of width sequences for bitfields
          PS,        \* pointer sizes (bits)
          VCs,       \* value classes: "zero","pat","neg","min","max"
          Stride,    \* 1: every finished case is checked and emitted; k > 1: the cases whose hash is
                     \* C16_PHASE (environment, default 0) modulo k - the quick tier samples, a different
                     \* residue class for every seed; the thorough tier uses 1
          Dev,       \* deviation set of the model itself ({} = the property; MC self-test uses a fault)
          Mode       \* "mc" (no output) | "gen" (print one case per terminal state)

(* cfg files cannot write tuples: bitfield splits are chosen by name (BitSplits <- BitSplitsFull)  *)
BitSplitsNone  == {}
BitSplitsSmall == {<<3, 5>>, <<1, 7, 8>>}
BitSplitsFull  == {<<8>>, <<3, 5>>, <<1, 7, 8>>, <<2, 4, 3, 1, 6>>, <<3, 5, 20>>, <<4, 28, 31>>, <<12, 20, 32>>}

VARIABLES stk, phase, psz, vcl, pend,
          img    \* byte image of the finished case (computed once, when the walk finishes)
vars == <<stk, phase, psz, vcl, pend, img>>

-----------------------------------------------------------------------------
(* generic helpers *)
Max(S) == CHOOSE x \in S : \A y \in S : y <= x
Up(o, a) == ((o + a - 1) \div a) * a
Zeros(n) == [i \in 1..n |-> 0]
Rev(s) == [i \in 1..Len(s) |-> s[Len(s) + 1 - i]]
RECURSIVE Flat(_)
Flat(ss) == IF ss = <<>> THEN <<>> ELSE Head(ss) \o Flat(Tail(ss))
(* byte access is total (0 beyond the end): only a DEVIATION can read beyond the image, and the   *)
(* result then carries its extent x > Len so that the replayer knows amoco would run out of bytes *)
At(s, i) == IF i + 1 \in 1..Len(s) THEN s[i + 1] ELSE 0          \* 0-based
Sub(s, a, n) == [i \in 1..n |-> At(s, a + i - 1)]              \* n items after 0-based position a
RECURSIVE SumSeq(_)
SumSeq(x) == IF x = <<>> THEN 0 ELSE Head(x) + SumSeq(Tail(x))
RECURSIVE Pow2(_)
Pow2(n) == IF n = 0 THEN 1 ELSE 2 * Pow2(n - 1)

-----------------------------------------------------------------------------
(* raw types of the struct module that the definition language accepts     *)
(* (StructDefine.alignments has no entry for n, N, p: KeyError at          *)
(* definition time, so they are not part of the language)                   *)
AllRaw == {"x", "c", "b", "B", "s", "h", "H", "i", "I", "f", "l", "L", "P", "q", "Q", "d"}
RawSize(t, ps) ==
  CASE t \in {"x", "c", "b", "B", "s"} -> 1
    [] t \in {"h", "H"} -> 2
    [] t \in {"i", "I", "f"} -> 4
    [] t \in {"q", "Q", "d"} -> 8
    [] t \in {"l", "L", "P"} -> ps \div 8
IsSigned(t) == t \in {"b", "h", "i", "l", "q"}
IsFloat(t) == t \in {"f", "d"}
IsBytes(t) == t \in {"s", "c"}

NoDef == [kind |-> "none", packed |-> FALSE, ord |-> "", fs |-> <<>>]
Fld(k, t, n, o, d, bits, sp, ct, ref, td) ==
  [k |-> k, t |-> t, n |-> n, o |-> o, d |-> d, bits |-> bits, sp |-> sp, ct |-> ct, ref |-> ref, td |-> td]
RawF(t, n, o)   == Fld("raw", t, n, o, NoDef, <<>>, FALSE, "", 0, FALSE)
TdF(t, n, o)    == Fld("raw", t, n, o, NoDef, <<>>, FALSE, "", 0, TRUE)
NestF(d, n)     == Fld("nest", "", n, "", d, <<>>, FALSE, "", 0, FALSE)
BitsF(t, o, b, sp) == Fld("bits", t, 0, o, NoDef, b, sp, "", 0, FALSE)
VarF(t, o)      == Fld("var", t, 0, o, NoDef, <<>>, FALSE, "", 0, FALSE)
CntF(t, o, ct)  == Fld("cnt", t, 0, o, NoDef, <<>>, FALSE, ct, 0, FALSE)
BoundF(t, o, r) == Fld("bound", t, 0, o, NoDef, <<>>, FALSE, "", r, FALSE)
LebF(t)         == Fld("leb", t, 0, "", NoDef, <<>>, FALSE, "", 0, FALSE)
IsVarK(k) == k \in {"var", "cnt", "bound", "leb"}

RECURSIVE HasVar(_)
HasVar(d) == \E i \in 1..Len(d.fs) : IsVarK(d.fs[i].k) \/ (d.fs[i].k = "nest" /\ HasVar(d.fs[i].d))

-----------------------------------------------------------------------------
(* LAYOUT: the C rule.                                                      *)
(* Deviations:                                                              *)
(*   "NoTailPad"       fault for the model self-test: no trailing padding   *)
(*   "PackedNestAlign" amoco: a packed definition used as a member is       *)
(*                     aligned like its widest member (C: alignment 1)      *)
RECURSIVE SizeOf(_, _, _), AlignOf(_, _, _), OffsFrom(_, _, _, _, _)
ElemSize(f, ps, D)  == IF f.k = "nest" THEN SizeOf(f.d, ps, D) ELSE RawSize(f.t, ps)
Mult(f) == IF f.n > 0 THEN f.n ELSE 1
(* "_inst" (internal): sizes as computed on an unpacked INSTANCE (len(value)); only there does   *)
(* the deviation "ArrLenCount" (see UNPACK) apply                                               *)
FSize(f, ps, D) == IF f.n > 0 /\ (f.k = "nest" \/ f.td) /\ {"_inst", "ArrLenCount"} \subseteq D THEN f.n
                   ELSE ElemSize(f, ps, D) * Mult(f)
(* alignment a definition imposes on the member that holds it *)
MemberAlign(d, ps, D) == Max({IF d.fs[i].k = "nest" THEN AlignOf(d.fs[i].d, ps, D) ELSE RawSize(d.fs[i].t, ps)
                               : i \in 1..Len(d.fs)})
AlignOf(d, ps, D) == IF d.packed /\ "PackedNestAlign" \notin D THEN 1 ELSE MemberAlign(d, ps, D)
ElemAlign(f, ps, D) == IF f.k = "nest" THEN AlignOf(f.d, ps, D) ELSE RawSize(f.t, ps)
(* offsets of fields i.. given that the previous field ended at `end` *)
OffsFrom(d, i, end, ps, D) ==
  IF i > Len(d.fs) THEN <<>>
  ELSE LET f == d.fs[i]
           o == IF d.kind = "union" THEN 0
                ELSE IF d.packed THEN end ELSE Up(end, ElemAlign(f, ps, D))
       IN <<o>> \o OffsFrom(d, i + 1, o + FSize(f, ps, D), ps, D)
Offsets(d, ps, D) == OffsFrom(d, 1, 0, ps, D)
SizeOf(d, ps, D) ==
  LET offs == Offsets(d, ps, D)
      ends == {offs[i] + FSize(d.fs[i], ps, D) : i \in 1..Len(d.fs)}
      raw  == Max(ends)
  IN IF d.packed \/ "NoTailPad" \in D THEN raw ELSE Up(raw, MemberAlign(d, ps, D))
(* index of the first largest member (what a union is packed from) *)
Largest(d, ps, D) == CHOOSE i \in 1..Len(d.fs) :
                        /\ \A j \in 1..Len(d.fs) : FSize(d.fs[j], ps, D) <= FSize(d.fs[i], ps, D)
                        /\ \A j \in 1..(i - 1) : FSize(d.fs[j], ps, D) < FSize(d.fs[i], ps, D)

-----------------------------------------------------------------------------
(* VALUES                                                                   *)
(*   integer   [neg, mag]  mag = little-endian base-256 digits, Len = size  *)
(*   float     [s, m, e]   (-1)^s * m * 2^e, m odd or 0                     *)
(*   s / c     sequence of bytes                                            *)
(*   array     sequence of element values; nested: sequence of field values *)
(*   bitfield  sequence of bit sequences (LSB first)                        *)
(*   leb128    a TLC integer                                                *)
RECURSIVE IncB(_)
IncB(b) == IF b = <<>> THEN <<>> ELSE IF Head(b) = 255 THEN <<0>> \o IncB(Tail(b)) ELSE <<Head(b) + 1>> \o Tail(b)
NegBytes(b) == IncB([i \in 1..Len(b) |-> 255 - b[i]])
IntOfTC(tc, signed) == IF signed /\ tc[Len(tc)] >= 128 THEN [neg |-> TRUE, mag |-> NegBytes(tc)]
                       ELSE [neg |-> FALSE, mag |-> tc]
TCOfInt(v) == IF v.neg THEN NegBytes(v.mag) ELSE v.mag
RECURSIVE NatOfLE(_)
NatOfLE(b) == IF b = <<>> THEN 0 ELSE Head(b) + 256 * NatOfLE(Tail(b))
(* a count read from the image; -1 when it is not a small number (never generated) *)
SmallNat(b) == IF \E i \in 1..Len(b) : i > 1 /\ b[i] # 0 THEN 0 - 1 ELSE IF b[1] > 64 THEN 0 - 1 ELSE b[1]
LEOfNat(x, n) == [i \in 1..n |-> (x \div Pow2(8 * (i - 1))) % 256]      \* x < 2^31
UIntV(x, n) == [neg |-> FALSE, mag |-> LEOfNat(x, n)]

(* bits, LSB first *)
BitsOfByte(b) == [i \in 1..8 |-> (b \div Pow2(i - 1)) % 2]
BitsOfBytes(bs) == Flat([i \in 1..Len(bs) |-> BitsOfByte(bs[i])])
ByteOfBits(bt) == bt[1] + 2 * bt[2] + 4 * bt[3] + 8 * bt[4] + 16 * bt[5] + 32 * bt[6] + 64 * bt[7] + 128 * bt[8]
BytesOfBits(bt) == [i \in 1..(Len(bt) \div 8) |-> ByteOfBits(Sub(bt, 8 * (i - 1), 8))]
BitsOfNat(x, w) == [i \in 1..w |-> (x \div Pow2(i - 1)) % 2]
RECURSIVE NatOfBits(_)
NatOfBits(bt) == IF bt = <<>> THEN 0 ELSE Head(bt) + 2 * NatOfBits(Tail(bt))

(* IEEE-754 binary32 / binary64, normal numbers and zero *)
FracBits(t) == IF t = "f" THEN 23 ELSE 52
ExpBits(t)  == IF t = "f" THEN 8 ELSE 11
Bias(t)     == IF t = "f" THEN 127 ELSE 1023
RECURSIVE Log2(_)
Log2(m) == IF m <= 1 THEN 0 ELSE 1 + Log2(m \div 2)
FloatTC(t, v) ==       \* little-endian bytes
  IF v.m = 0 THEN Zeros(RawSize(t, 32) - 1) \o <<IF v.s = 1 THEN 128 ELSE 0>>
  ELSE LET p == Log2(v.m)
           F == FracBits(t)
           bits == Zeros(F - p) \o BitsOfNat(v.m - Pow2(p), p) \o BitsOfNat(v.e + p + Bias(t), ExpBits(t)) \o <<v.s>>
       IN BytesOfBits(bits)
RECURSIVE TrailZ(_)
TrailZ(bt) == IF bt = <<>> \/ Head(bt) = 1 THEN 0 ELSE 1 + TrailZ(Tail(bt))
FloatOfTC(t, tc) ==
  LET bits == BitsOfBytes(tc)
      F == FracBits(t)
      ex == NatOfBits(Sub(bits, F, ExpBits(t)))
      s == bits[Len(bits)]
      mant == Sub(bits, 0, F) \o <<1>>
      tz == TrailZ(mant)
      other == [s |-> s, m |-> 0 - 1, e |-> 0]       \* not a generated value (only met when a deviation reads elsewhere)
  IN IF ex = 0 THEN (IF tz = F THEN [s |-> s, m |-> 0, e |-> 0] ELSE other)      \* zero / denormal
     ELSE IF ex = Pow2(ExpBits(t)) - 1 THEN other                                \* inf / nan
     ELSE IF F + 1 - tz > 30 THEN other
     ELSE [s |-> s, m |-> NatOfBits(Sub(mant, tz, F + 1 - tz)), e |-> ex - Bias(t) - F + tz]

(* LEB128 (canonical = shortest encodings) *)
BigInt == 0 - 1073741823    \* stands for "some integer": a LEB128 of more than 4 bytes (only met when a deviation reads elsewhere)
RECURSIVE ULeb(_), SLeb(_), LebLen(_, _)
ULeb(x) == IF x < 128 THEN <<x>> ELSE <<128 + (x % 128)>> \o ULeb(x \div 128)
SLeb(x) == LET b == x % 128  r == x \div 128 IN           \* \div floors: an arithmetic shift
           IF (r = 0 /\ b < 64) \/ (r = -1 /\ b >= 64) THEN <<b>> ELSE <<128 + b>> \o SLeb(r)
LebLen(bs, o) == IF At(bs, o) < 128 THEN 1 ELSE 1 + LebLen(bs, o + 1)
RECURSIVE LebAcc(_, _, _)
LebAcc(bs, o, n) == IF n = 0 THEN 0 ELSE (At(bs, o) % 128) + 128 * LebAcc(bs, o + 1, n - 1)
LebDec(bs, o, signed) ==
  LET n == LebLen(bs, o)
      u == IF n > 4 THEN 0 ELSE LebAcc(bs, o, n)
      last == At(bs, o + n - 1)
  IN IF n > 4 THEN [v |-> BigInt, n |-> n, x |-> o + n]         \* never generated: a LEB128 longer than 4 bytes
     ELSE [v |-> IF signed /\ (last % 128) >= 64 THEN u - Pow2(7 * n) ELSE u, n |-> n, x |-> o + n]

-----------------------------------------------------------------------------
(* effective byte order of a field *)
(* (a typedef is a definition of its own, written without order: its values are little-endian     *)
(* whatever the order of the definition that uses it)                                            *)
EOrd(d, f) == IF f.td THEN "<" ELSE IF f.o # "" THEN f.o ELSE IF d.ord # "" THEN d.ord ELSE "<"
Mem(tc, eo) == IF eo = ">" THEN Rev(tc) ELSE tc

(* one scalar of raw type t *)
EncScalar(t, v, eo) ==
  IF IsBytes(t) THEN v
  ELSE IF IsFloat(t) THEN Mem(FloatTC(t, v), eo)
  ELSE Mem(TCOfInt(v), eo)
(* Deviation "SLongU": amoco maps the signed `l` to the unsigned I / Q when *)
(* a pointer size is given                                                  *)
DecScalar(t, bs, o, ps, eo, D) ==
  LET n  == RawSize(t, ps)
      tc == Mem(Sub(bs, o, n), eo)
  IN IF IsBytes(t) THEN Sub(bs, o, n)
     ELSE IF IsFloat(t) THEN FloatOfTC(t, tc)
     ELSE IntOfTC(tc, IsSigned(t) /\ ~(t = "l" /\ "SLongU" \in D))

EncBits(f, v, ps, eo) ==
  LET used == Flat(v)
      unit == used \o Zeros(8 * RawSize(f.t, ps) - Len(used))
  IN Mem(BytesOfBits(unit), eo)
RECURSIVE BitStarts(_)
BitStarts(ws) == IF ws = <<>> THEN <<>> ELSE <<0>> \o [i \in 1..(Len(ws) - 1) |-> ws[1] + BitStarts(Tail(ws))[i]]
DecBits(f, bs, o, ps, eo) ==
  LET unit == BitsOfBytes(Mem(Sub(bs, o, RawSize(f.t, ps)), eo))
      st == BitStarts(f.bits)
  IN [j \in 1..Len(f.bits) |-> Sub(unit, st[j], f.bits[j])]

-----------------------------------------------------------------------------
(* PACK.  Deviations:                                                       *)
(*   "PadAtEnd"       StructCore.pack never advances its offset: field      *)
(*                    encodings are concatenated and all padding goes last  *)
(*   "UnionNoPad"     a union packs to its largest member only (no padding  *)
(*                    to the union's size)                                  *)
(*   "UnionIdxNative" the member a union is packed from is chosen with the  *)
(*                    sizes of the host (64-bit) whatever the pointer size  *)
(*   "SLebU"          a signed LEB128 member is written by the unsigned     *)
(*                    encoder (see UNPACK)                                  *)
RECURSIVE Pack(_, _, _, _), EncField(_, _, _, _, _), PackFrom(_, _, _, _, _, _)
EncElems(t, vs, eo) == IF IsBytes(t) THEN vs ELSE Flat([j \in 1..Len(vs) |-> EncScalar(t, vs[j], eo)])
EncField(d, f, v, ps, D) ==
  LET eo == EOrd(d, f) IN
  CASE f.k = "raw"   -> IF f.n = 0 THEN EncScalar(f.t, v, eo) ELSE EncElems(f.t, v, eo)
    [] f.k = "nest"  -> IF f.n = 0 THEN Pack(f.d, v, ps, D) ELSE Flat([j \in 1..f.n |-> Pack(f.d, v[j], ps, D)])
    [] f.k = "bits"  -> EncBits(f, v, ps, eo)
    [] f.k = "var"   -> EncElems(f.t, v, eo)
    [] f.k = "cnt"   -> EncScalar(f.ct, UIntV(Len(v), RawSize(f.ct, ps)), eo) \o EncElems(f.t, v, eo)
    [] f.k = "bound" -> EncElems(f.t, v, eo)
    [] f.k = "leb"   -> IF IsSigned(f.t) /\ "SLebU" \notin D THEN SLeb(v) ELSE ULeb(v)
(* fields i.. appended to acc (a struct): zero padding up to the field's offset *)
PackFrom(d, vs, i, acc, ps, D) ==
  IF i > Len(d.fs) THEN acc
  ELSE LET f == d.fs[i]
           o == IF d.packed \/ "PadAtEnd" \in D THEN Len(acc) ELSE Up(Len(acc), ElemAlign(f, ps, D))
       IN PackFrom(d, vs, i + 1, acc \o Zeros(o - Len(acc)) \o EncField(d, f, vs[i], ps, D), ps, D)
PadTo(bs, n) == IF Len(bs) < n THEN bs \o Zeros(n - Len(bs)) ELSE bs
Pack(d, vs, ps, D) ==
  IF d.kind = "union"
  THEN LET i == Largest(d, IF "UnionIdxNative" \in D THEN 64 ELSE ps, D)
           e == EncField(d, d.fs[i], vs[i], ps, D)
       IN IF "UnionNoPad" \in D THEN e ELSE PadTo(e, SizeOf(d, ps, D))
  ELSE LET body == PackFrom(d, vs, 1, <<>>, ps, D)
       IN IF d.packed \/ HasVar(d) THEN body ELSE PadTo(body, SizeOf(d, ps, D))

-----------------------------------------------------------------------------
(* UNPACK: values read from byte image bs with the definition starting at   *)
(* absolute position base. Returns [v |-> values, n |-> bytes consumed,     *)
(* x |-> end of the bytes touched].                                         *)
(* Deviations (all describe the pinned amoco tree):                         *)
(*   "AbsAlign"     members are aligned on the absolute position in the     *)
(*                  buffer instead of relative to the start of the struct   *)
(*   "ArrLenCount"  after unpacking, the size of an array-of-definitions    *)
(*                  (or array-of-typedef) member is taken to be its COUNT   *)
(*   "LenNative"    after unpacking, the size of a nested member is         *)
(*                  len(instance), which is computed with the host's        *)
(*                  (64-bit) sizes whatever the pointer size                *)
(*   "SLebU"        a signed LEB128 member is decoded as unsigned (the     *)
(*                  per-instance copy of the field forgets its sign)        *)
(*   "SLongU", "PackedNestAlign"  see above                                 *)
RECURSIVE Unpack(_, _, _, _, _), DecField(_, _, _, _, _, _, _), UnpFrom(_, _, _, _, _, _, _, _, _, _), DecArr(_, _, _, _, _, _), DecElems(_, _, _, _, _, _, _),
          TermLen(_, _, _, _, _), ImplLen(_, _, _)
DecElems(t, bs, o, n, ps, eo, D) ==
  IF IsBytes(t) THEN Sub(bs, o, n)
  ELSE [j \in 1..n |-> DecScalar(t, bs, o + (j - 1) * RawSize(t, ps), ps, eo, D)]
IsZeroElem(t, bs, o, ps) == \A j \in 0..(RawSize(t, ps) - 1) : At(bs, o + j) = 0
(* number of elements of a terminated field, terminator included *)
TermLen(t, bs, o, ps, k) == IF IsZeroElem(t, bs, o, ps) THEN k + 1 ELSE TermLen(t, bs, o + RawSize(t, ps), ps, k + 1)
(* StructCore.__len__ on an unpacked instance: sizes of the host (ps = 64) *)
NatPs(ps, D) == IF "LenNative" \in D THEN 64 ELSE ps
ImplLen(d, ps, D) == SizeOf(d, NatPs(ps, D), D \cup {"_inst"})
(* n consecutive elements of definition fd; an element with variable-length members has its own length *)
DecArr(fd, bs, o, n, ps, D) ==
  IF n = 0 THEN [v |-> <<>>, il |-> 0, x |-> o]
  ELSE LET r == Unpack(fd, bs, o, ps, D)
           rest == DecArr(fd, bs, o + r.il, n - 1, ps, D)
       IN [v |-> <<r.v>> \o rest.v, il |-> r.il + rest.il, x |-> IF r.x > rest.x THEN r.x ELSE rest.x]
DecField(d, f, bs, o, ps, prior, D) ==
  LET eo == EOrd(d, f) IN
  CASE f.k = "raw" /\ ~(f.td /\ "AbsAlign" \in D) ->
                       [v |-> IF f.n = 0 THEN DecScalar(f.t, bs, o, ps, eo, D) ELSE DecElems(f.t, bs, o, f.n, ps, eo, D),
                        n |-> IF f.td /\ f.n > 0 /\ "ArrLenCount" \in D THEN f.n ELSE FSize(f, ps, D),
                        il |-> IF f.td /\ f.n > 0 /\ "ArrLenCount" \in D THEN f.n ELSE FSize(f, NatPs(ps, D), D),
                        x |-> o + RawSize(f.t, ps) * Mult(f)]
    [] f.k = "raw" /\ f.td /\ "AbsAlign" \in D ->
         \* a typedef is a (non-packed) definition of one member: under AbsAlign every element is
         \* read at the next absolute multiple of its size
         LET sz == RawSize(f.t, ps)
             at(j) == Up(o + (j - 1) * sz, sz)
         IN [v |-> IF f.n = 0 THEN DecScalar(f.t, bs, at(1), ps, eo, D)
                   ELSE [j \in 1..f.n |-> DecScalar(f.t, bs, at(j), ps, eo, D)],
             n |-> IF f.n > 0 /\ "ArrLenCount" \in D THEN f.n ELSE FSize(f, ps, D),
             il |-> IF f.n > 0 /\ "ArrLenCount" \in D THEN f.n ELSE FSize(f, NatPs(ps, D), D),
             x |-> at(Mult(f)) + sz]
    [] f.k = "nest" ->
         IF f.n = 0
         THEN LET r == Unpack(f.d, bs, o, ps, D)
              IN [v |-> r.v, n |-> r.il, il |-> r.il, x |-> r.x]
         ELSE LET a == DecArr(f.d, bs, o, f.n, ps, D)   \* Field.unpack: every element advances by its OWN len(element)
              IN [v |-> a.v,
                  n |-> IF "ArrLenCount" \in D THEN f.n ELSE a.il,
                  il |-> IF "ArrLenCount" \in D THEN f.n ELSE a.il,
                  x |-> a.x]
    [] f.k = "bits" -> [v |-> DecBits(f, bs, o, ps, eo), n |-> RawSize(f.t, ps), il |-> RawSize(f.t, ps), x |-> o + RawSize(f.t, ps)]
    [] f.k = "var"  -> LET k == TermLen(f.t, bs, o, ps, 0)
                       IN [v |-> DecElems(f.t, bs, o, k, ps, eo, D), n |-> k * RawSize(f.t, ps), il |-> k * RawSize(f.t, ps),
                           x |-> o + k * RawSize(f.t, ps)]
    [] f.k = "cnt"  -> LET cs == RawSize(f.ct, ps)
                           k == SmallNat(TCOfInt(DecScalar(f.ct, bs, o, ps, eo, D)))
                       IN IF k < 0 THEN [v |-> <<>>, n |-> cs, il |-> cs, x |-> Len(bs) + 1]
                          ELSE [v |-> DecElems(f.t, bs, o + cs, k, ps, eo, D), n |-> cs + k * RawSize(f.t, ps),
                                il |-> cs + k * RawSize(f.t, ps), x |-> o + cs + k * RawSize(f.t, ps)]
    [] f.k = "bound" -> LET k == SmallNat(prior[f.ref].mag)
                        IN IF k < 0 THEN [v |-> <<>>, n |-> 0, il |-> 0, x |-> Len(bs) + 1]
                           ELSE [v |-> DecElems(f.t, bs, o, k, ps, eo, D), n |-> k * RawSize(f.t, ps),
                                 il |-> k * RawSize(f.t, ps), x |-> o + k * RawSize(f.t, ps)]
    [] f.k = "leb"  -> LET r == LebDec(bs, o, IsSigned(f.t) /\ "SLebU" \notin D)
                       IN [v |-> r.v, n |-> r.n, il |-> r.n, x |-> r.x]
UnpFrom(d, bs, base, i, pos, vals, xt, ils, ps, D) ==
  IF i > Len(d.fs) THEN [v |-> vals, end |-> pos, x |-> xt, il |-> ils]
  ELSE LET f == d.fs[i]
           a == ElemAlign(f, ps, D)
           o == IF d.kind = "union" THEN base
                ELSE IF d.packed THEN pos
                ELSE IF "AbsAlign" \in D THEN Up(pos, a) ELSE base + Up(pos - base, a)
           r == DecField(d, f, bs, o, ps, vals, D)
       IN UnpFrom(d, bs, base, i + 1, IF d.kind = "union" THEN pos ELSE o + r.n, Append(vals, r.v),
                  IF r.x > xt THEN r.x ELSE xt, ils + r.il, ps, D)
(* n: bytes the definition occupies; il: what amoco takes for its size once unpacked = len(instance): *)
(* the sum of the members' sizes for the (packed) definitions with variable-length members, the      *)
(* static size otherwise - under LenNative both with the host's pointer size                         *)
Unpack(d, bs, base, ps, D) ==
  LET r == UnpFrom(d, bs, base, 1, base, <<>>, base, 0, ps, D)
  IN [v |-> r.v, n |-> IF HasVar(d) THEN r.end - base ELSE SizeOf(d, ps, D), x |-> r.x,
      il |-> IF HasVar(d) THEN r.il ELSE ImplLen(d, ps, D)]

-----------------------------------------------------------------------------
(* VALUE GENERATION: a value class and a per-field seed give every field a  *)
(* two's-complement byte pattern; values are what those patterns mean.      *)
PatByte(vc, seed, k, n) ==       \* byte k (0-based, LE) of an n-byte pattern
  CASE vc = "zero" -> 0
    [] vc = "pat"  -> (seed * 16 + k + 1) % 256
    [] vc = "neg"  -> 255
    [] vc = "min"  -> IF k = n - 1 THEN 128 ELSE 0
    [] vc = "max"  -> IF k = n - 1 THEN 127 ELSE 255
PatTC(vc, seed, n) == [k \in 1..n |-> PatByte(vc, seed, k - 1, n)]
NZ(tc) == IF \A i \in 1..Len(tc) : tc[i] = 0 THEN [tc EXCEPT ![1] = 1] ELSE tc
GenFloat(vc, seed) ==
  CASE vc = "zero" -> [s |-> 0, m |-> 0, e |-> 0]
    [] vc = "pat"  -> [s |-> seed % 2, m |-> 2 * seed + 1, e |-> seed - 3]
    [] vc = "neg"  -> [s |-> 1, m |-> 1, e |-> 0]
    [] vc = "min"  -> [s |-> 0, m |-> 1, e |-> 0 - 126]
    [] vc = "max"  -> [s |-> 0, m |-> 2047, e |-> 100]
GenLeb(vc, seed, signed) ==
  CASE vc = "zero" -> 0
    [] vc = "pat"  -> IF seed % 2 = 0 THEN 624485 + seed ELSE 60 + seed
    [] vc = "neg"  -> IF signed THEN 0 - 1 ELSE 128
    [] vc = "min"  -> IF signed THEN 0 - 65 ELSE 16383
    [] vc = "max"  -> IF signed THEN 0 - 123456 ELSE 134217727
GenScalar(t, vc, seed, ps) ==
  IF IsBytes(t) THEN PatTC(vc, seed, 1)
  ELSE IF IsFloat(t) THEN GenFloat(vc, seed)
  ELSE IntOfTC(PatTC(vc, seed, RawSize(t, ps)), IsSigned(t))
GenElems(t, vc, seed, n, ps) ==
  IF IsBytes(t) THEN [j \in 1..n |-> PatByte(vc, seed, j - 1, n)]
  ELSE [j \in 1..n |-> GenScalar(t, vc, (seed + j) % 16, ps)]
(* non-zero elements (for terminated fields) *)
GenNZElems(t, seed, n, ps) ==
  IF IsBytes(t) THEN [j \in 1..n |-> NZ(<<PatByte("pat", seed, j - 1, n)>>)[1]]
  ELSE [j \in 1..n |-> IntOfTC(NZ(PatTC("pat", (seed + j) % 16, RawSize(t, ps))), IsSigned(t))]
ZeroElem(t, ps) == IF IsBytes(t) THEN 0 ELSE IntOfTC(Zeros(RawSize(t, ps)), FALSE)
VarCount(vc, seed) == IF vc = "zero" THEN 0 ELSE 1 + (seed % 3)
Seed(parent, i) == ((parent * 5 + i * 3) % 15) + 1
RECURSIVE GenVals(_, _, _, _)
GenField(d, i, vc, sd, ps) ==
  LET f == d.fs[i]  s == Seed(sd, i) IN
  CASE f.k = "raw"  -> IF f.n = 0 THEN GenScalar(f.t, vc, s, ps) ELSE GenElems(f.t, vc, s, f.n, ps)
    [] f.k = "nest" -> IF f.n = 0 THEN GenVals(f.d, vc, s, ps) ELSE [j \in 1..f.n |-> GenVals(f.d, vc, (s + j) % 16, ps)]
    [] f.k = "bits" -> LET unit == BitsOfBytes(PatTC(vc, s, RawSize(f.t, ps)))
                           st == BitStarts(f.bits)
                       IN [j \in 1..Len(f.bits) |-> Sub(unit, st[j], f.bits[j])]
    [] f.k = "var"  -> LET k == VarCount(vc, s) IN
                       IF IsBytes(f.t) THEN GenNZElems(f.t, s, k, ps) \o <<0>>
                       ELSE Append(GenNZElems(f.t, s, k, ps), ZeroElem(f.t, ps))
    [] f.k = "cnt"  -> GenElems(f.t, vc, s, VarCount(vc, s), ps)
    [] f.k = "bound" -> GenElems(f.t, vc, s, VarCount(vc, Seed(sd, f.ref)), ps)
    [] f.k = "leb"  -> GenLeb(vc, s, IsSigned(f.t))
GenVals(d, vc, sd, ps) ==
  LET raw == [i \in 1..Len(d.fs) |-> GenField(d, i, vc, sd, ps)]
      refs == {d.fs[j].ref : j \in {jj \in 1..Len(d.fs) : d.fs[jj].k = "bound"}}
  IN [i \in 1..Len(d.fs) |->
        IF i \in refs THEN UIntV(VarCount(vc, Seed(sd, i)), RawSize(d.fs[i].t, ps)) ELSE raw[i]]

-----------------------------------------------------------------------------
(* DEFINITION TEXT in amoco's definition language. "@" marks a type name    *)
(* the replayer must make unique (the registry of definitions is global).   *)
CountTxt(n) == IF n > 0 THEN "*" \o ToString(n) ELSE ""
RECURSIVE JoinW(_, _), JoinN(_, _, _)
JoinW(ws, i) == IF i > Len(ws) THEN "" ELSE (IF i > 1 THEN "/" ELSE "") \o ToString(ws[i]) \o JoinW(ws, i + 1)
JoinN(nm, k, i) == IF i > k THEN "" ELSE (IF i > 1 THEN "/" ELSE "") \o nm \o "_" \o ToString(i) \o JoinN(nm, k, i + 1)
OrdTxt(o) == " :" \o o \o " "
RECURSIVE SplitBits(_, _, _)
SplitBits(f, nm, j) == IF j > Len(f.bits) THEN ""
                       ELSE f.t \o " *#" \o ToString(f.bits[j]) \o OrdTxt(f.o) \o nm \o "_" \o ToString(j) \o "\n"
                            \o SplitBits(f, nm, j + 1)
FieldTxt(f, i, path) ==
  LET nm == "f" \o ToString(i) IN
  CASE f.k = "raw"  -> (IF f.td THEN "@TD_" \o f.t ELSE f.t) \o CountTxt(f.n) \o OrdTxt(f.o) \o nm \o "\n"
    [] f.k = "nest" -> "@" \o path \o "_" \o ToString(i) \o CountTxt(f.n) \o OrdTxt("") \o nm \o "\n"
    [] f.k = "bits" -> IF f.sp THEN SplitBits(f, nm, 1)
                       ELSE f.t \o " *#" \o JoinW(f.bits, 1) \o OrdTxt(f.o) \o JoinN(nm, Len(f.bits), 1) \o "\n"
    [] f.k = "var"  -> f.t \o "*~" \o OrdTxt(f.o) \o nm \o "\n"
    [] f.k = "cnt"  -> f.t \o "*~" \o f.ct \o OrdTxt(f.o) \o nm \o "\n"
    [] f.k = "bound" -> f.t \o "*.f" \o ToString(f.ref) \o OrdTxt(f.o) \o nm \o "\n"
    [] f.k = "leb"  -> f.t \o "*%leb128" \o OrdTxt("") \o nm \o "\n"
RECURSIVE DefTxt(_, _, _)
DefTxt(d, path, i) == IF i > Len(d.fs) THEN "" ELSE FieldTxt(d.fs[i], i, path) \o DefTxt(d, path, i + 1)
(* declarations, inner definitions first: [name, kind, packed, ord, text] *)
RECURSIVE Decls(_, _)
Decls(d, path) ==
  Flat([i \in 1..Len(d.fs) |-> IF d.fs[i].k = "nest" THEN Decls(d.fs[i].d, path \o "_" \o ToString(i)) ELSE <<>>])
  \o <<[name |-> "@" \o path, kind |-> d.kind, packed |-> d.packed, ord |-> d.ord, text |-> DefTxt(d, path, 1)]>>
RECURSIVE Typedefs(_)
Typedefs(d) == UNION {IF d.fs[i].k = "nest" THEN Typedefs(d.fs[i].d)
                      ELSE IF d.fs[i].td THEN {d.fs[i].t} ELSE {} : i \in 1..Len(d.fs)}

-----------------------------------------------------------------------------
(* SHAPE CLASSES: where, in amoco's order of evaluation, a named deviation  *)
(* that RAISES would be reached (the replayer matches the exception it sees *)
(* against this list; the names are the keys of the known findings).        *)
RECURSIVE PackTrig(_, _), UnpTrig(_, _, _, _)
PackTrigField(f, v, ps) ==
  CASE f.k = "raw" /\ f.td               -> <<"TypedefPack">>
    [] f.k = "raw" /\ ~f.td /\ f.n > 0 /\ ~IsBytes(f.t) -> <<"RawArrayPack">>
    [] f.k = "nest" /\ f.n = 0           -> <<"NestPack">> \o PackTrig(f.d, v)
    [] f.k = "nest" /\ f.n > 0           -> <<"NestArrayPack">> \o Flat([j \in 1..f.n |-> PackTrig(f.d, v[j])])
    [] f.k = "var" /\ IsBytes(f.t)       -> <<"VarBytesPack">>
    [] f.k = "cnt" /\ Len(v) = 0         -> <<"CntEmptyPack">>
    [] f.k = "cnt" /\ Len(v) > 0 /\ f.t # "s" -> <<"CntSeqPack">>
    [] f.k = "bound"                     -> <<"BoundPack">>
    [] OTHER -> <<>>
PackTrig(d, vs) ==
  (IF \E i \in 1..Len(d.fs) : d.fs[i].k = "bits" THEN <<"BitfieldPack">> ELSE <<>>)
  \o Flat([i \in 1..Len(d.fs) |-> PackTrigField(d.fs[i], vs[i], 64)])
UnpTrig(d, vs, ps, last) ==      \* last: nothing is read after this definition
  Flat([i \in 1..Len(d.fs) |->
    LET f == d.fs[i]  lastf == last /\ i = Len(d.fs) IN
    CASE f.k = "var" /\ Len(vs[i]) = 1 /\ ~lastf -> <<"VarEmptyNoSize">>
      [] f.k = "cnt" /\ Len(vs[i]) > 0 /\ RawSize(f.ct, ps) % RawSize(f.t, ps) # 0 -> <<"CntNativeSize">>
      [] f.k = "nest" /\ f.n = 0 -> UnpTrig(f.d, vs[i], ps, lastf)
      [] f.k = "nest" /\ f.n > 0 -> Flat([j \in 1..f.n |-> UnpTrig(f.d, vs[i][j], ps, lastf /\ j = f.n)])
      [] OTHER -> <<>>])

-----------------------------------------------------------------------------
(* GENERATOR: a walk over the grammar of definitions. stk is the stack of   *)
(* definitions under construction (stk[1] = the top-level one).             *)
NewDef(kind, ord) == [kind |-> IF kind = "union" THEN "union" ELSE "struct", packed |-> kind = "packed",
                      ord |-> ord, fs |-> <<>>]
Top == stk[Len(stk)]
Room == Len(Top.fs) < (IF Len(stk) = 1 THEN MaxF ELSE MaxIF)
InUnion == \E i \in 1..Len(stk) : stk[i].kind = "union"
AllPacked == \A i \in 1..Len(stk) : stk[i].kind = "struct" /\ stk[i].packed
(* variable-length members: C has none; they are generated in packed        *)
(* structures only (sequential layout), never inside unions; arrays of such  *)
(* structures (elements of different lengths) need "vararr" in Feat          *)
VarOK == AllPacked
LastIsBits == Len(Top.fs) > 0 /\ Top.fs[Len(Top.fs)].k = "bits"
Push(f) == stk' = [stk EXCEPT ![Len(stk)].fs = Append(@, f)]
IntT == RawT \cap {"b", "B", "h", "H", "i", "I", "l", "L", "P", "q", "Q"}
VarElemT == RawT \cap {"B", "H", "I", "s", "c"}
CntT == RawT \cap {"B", "H", "I"}
BitT == RawT \cap {"B", "H", "I", "Q"}
FieldT == IF InUnion THEN RawT \ {"f", "d", "x"} ELSE RawT \ {"x"}

AddRaw == /\ phase = "build" /\ pend = "raw"
          /\ \E t \in FieldT, n \in {0} \cup ArrN, o \in Ords :
               /\ (o # "" => RawSize(t, 64) > 1)          \* an order literal on a byte is noise
               /\ Push(RawF(t, n, o))
          /\ pend' = "" /\ UNCHANGED <<phase, psz, vcl, img>>
AddTypedef == /\ phase = "build" /\ pend = "td"
              /\ \E t \in IntT, n \in {0} \cup ArrN : Push(TdF(t, n, ""))
              /\ pend' = "" /\ UNCHANGED <<phase, psz, vcl, img>>
AddBits == /\ phase = "build" /\ pend = "bits"
           /\ \E t \in BitT, b \in BitSplits, o \in Ords, sp \in BOOLEAN :
                /\ (o # "" => RawSize(t, 64) > 1)
                /\ SumSeq(b) <= 8 * RawSize(t, 64)
                /\ (sp => ~LastIsBits /\ Len(b) > 1)
                /\ (~sp /\ Len(b) = 1 => ~LastIsBits)     \* a lone 1-sub-field line would be joined to the previous unit
                /\ Push(BitsF(t, o, b, sp))
           /\ pend' = "" /\ UNCHANGED <<phase, psz, vcl, img>>
AddVar == /\ phase = "build" /\ pend = "var"
          /\ \/ /\ "var" \in Feat /\ \E t \in VarElemT, o \in Ords : (o # "" => RawSize(t, 64) > 1) /\ Push(VarF(t, o))
             \/ /\ "cnt" \in Feat /\ \E t \in VarElemT, ct \in CntT, o \in Ords :
                     (o # "" => RawSize(t, 64) > 1 \/ RawSize(ct, 64) > 1) /\ Push(CntF(t, o, ct))
             \/ /\ "bound" \in Feat
                /\ \E t \in VarElemT, o \in Ords, r \in 1..Len(Top.fs) :
                     /\ Top.fs[r].k = "raw" /\ Top.fs[r].n = 0 /\ ~Top.fs[r].td /\ Top.fs[r].t \in {"B", "H", "I"}
                     /\ (o # "" => RawSize(t, 64) > 1)
                     /\ Push(BoundF(t, o, r))
             \/ /\ "leb" \in Feat /\ \E t \in RawT \cap {"I", "i"} : Push(LebF(t))
          /\ pend' = "" /\ UNCHANGED <<phase, psz, vcl, img>>
Open == /\ phase = "build" /\ pend = "open"
        /\ \E kind \in DefKinds, ord \in DefOrds : stk' = Append(stk, NewDef(kind, ord))
        /\ pend' = "" /\ UNCHANGED <<phase, psz, vcl, img>>
Close == /\ phase = "build" /\ pend = "close"
         /\ \E n \in {0} \cup (IF "nestarr" \in Feat /\ (~HasVar(Top) \/ "vararr" \in Feat) THEN NestN ELSE {}) :
              stk' = [SubSeq(stk, 1, Len(stk) - 1) EXCEPT ![Len(stk) - 1].fs = Append(@, NestF(Top, n))]
         /\ pend' = "" /\ UNCHANGED <<phase, psz, vcl, img>>
Finish == /\ phase = "build" /\ pend = "finish"
          /\ phase' = "done" /\ psz' \in PS /\ vcl' \in VCs
          /\ img' = Pack(stk[1], GenVals(stk[1], vcl', 1, psz'), psz', Dev)
          /\ pend' = "" /\ UNCHANGED stk
(* first stage of every step: which production is taken (keeps -simulate balanced between kinds) *)
VarFeat == Feat \cap {"var", "cnt", "bound", "leb"}
Pick == /\ phase = "build" /\ pend = ""
        /\ pend' \in {k \in {"raw", "td", "bits", "var", "open", "close", "finish"} :
                        CASE k = "raw"  -> Room
                          [] k = "td"   -> Room /\ "typedef" \in Feat /\ IntT # {}
                          [] k = "bits" -> Room /\ "bits" \in Feat /\ BitT # {}
                          [] k = "var"  -> Room /\ VarOK /\ VarFeat # {} /\
                                           (VarFeat = {"bound"} => \E r \in 1..Len(Top.fs) :
                                               Top.fs[r].k = "raw" /\ Top.fs[r].n = 0 /\ ~Top.fs[r].td /\ Top.fs[r].t \in {"B", "H", "I"})
                          [] k = "open" -> Room /\ Len(stk) <= MaxDepth
                          [] k = "close" -> Len(stk) > 1 /\ Len(Top.fs) > 0
                          [] k = "finish" -> Len(stk) = 1 /\ Len(Top.fs) >= MinF}
        /\ UNCHANGED <<stk, phase, psz, vcl, img>>

Init == /\ \E kind \in DefKinds, ord \in DefOrds : stk = <<NewDef(kind, ord)>>
        /\ phase = "build" /\ psz = 0 /\ vcl = "none" /\ pend = "" /\ img = <<>>
Next == Pick \/ AddRaw \/ AddTypedef \/ AddBits \/ AddVar \/ Open \/ Close \/ Finish
Spec == Init /\ [][Next]_vars

-----------------------------------------------------------------------------
(* the finished case *)
TheDef == stk[1]
Vals   == GenVals(TheDef, vcl, 1, psz)
Filler == [i \in 1..24 |-> 238]          \* bytes after the structure: must not influence anything
Image  == img
Fixed  == ~HasVar(TheDef)
RECURSIVE HasUnion(_)
HasUnion(d) == d.kind = "union" \/ \E i \in 1..Len(d.fs) : d.fs[i].k = "nest" /\ HasUnion(d.fs[i].d)

(* sampling of the finished cases (Stride > 1): a cheap hash of the definition, pointer size, value class *)
LCode == ("x" :> 1) @@ ("c" :> 2) @@ ("b" :> 3) @@ ("B" :> 4) @@ ("s" :> 5) @@ ("h" :> 6) @@ ("H" :> 7) @@ ("i" :> 8) @@
         ("I" :> 9) @@ ("f" :> 10) @@ ("l" :> 11) @@ ("L" :> 12) @@ ("P" :> 13) @@ ("q" :> 14) @@ ("Q" :> 15) @@ ("d" :> 16) @@ ("" :> 17)
KCode == ("raw" :> 1) @@ ("nest" :> 2) @@ ("bits" :> 3) @@ ("var" :> 4) @@ ("cnt" :> 5) @@ ("bound" :> 6) @@ ("leb" :> 7)
VCode == ("zero" :> 1) @@ ("pat" :> 2) @@ ("neg" :> 3) @@ ("min" :> 4) @@ ("max" :> 5) @@ ("none" :> 0)
RECURSIVE DefHash(_), FieldsHash(_, _, _)
FieldsHash(d, i, h) ==
  IF i > Len(d.fs) THEN h
  ELSE LET f == d.fs[i]
           c == LCode[f.t] + 19 * KCode[f.k] + 7 * f.n + 3 * Len(f.bits) + (IF f.td THEN 5 ELSE 0) + (IF f.o = ">" THEN 11 ELSE 0)
                + (IF f.k = "nest" THEN DefHash(f.d) ELSE 0)
       IN FieldsHash(d, i + 1, (h * 31 + c) % 99991)
DefHash(d) == FieldsHash(d, 1, (IF d.kind = "union" THEN 2 ELSE IF d.packed THEN 3 ELSE 5) + (IF d.ord = ">" THEN 7 ELSE 0))
Phase == IF "C16_PHASE" \in DOMAIN IOEnv THEN atoi(IOEnv.C16_PHASE) ELSE 0
Sampled == Stride = 1 \/ (DefHash(TheDef) + (psz \div 32) + 3 * VCode[vcl]) % Stride = Phase % Stride

(* M: internal invariants of the reference model (checked on every sampled case) *)
RECURSIVE WellLaid(_, _)
WellLaid(d, ps) ==
  LET offs == Offsets(d, ps, Dev) IN
  /\ \A i \in 1..Len(d.fs) :
       /\ (~d.packed => offs[i] % ElemAlign(d.fs[i], ps, Dev) = 0)
       /\ (d.kind = "union" => offs[i] = 0)
       /\ (d.kind # "union" /\ i > 1 => offs[i] >= offs[i - 1] + FSize(d.fs[i - 1], ps, Dev))
       /\ (d.kind # "union" /\ d.packed /\ i > 1 => offs[i] = offs[i - 1] + FSize(d.fs[i - 1], ps, Dev))
       /\ offs[i] + FSize(d.fs[i], ps, Dev) <= SizeOf(d, ps, Dev)
       /\ (d.fs[i].k = "nest" => WellLaid(d.fs[i].d, ps))
  /\ SizeOf(d, ps, Dev) % AlignOf(d, ps, Dev) = 0
  /\ SizeOf(d, ps, Dev) - Max({offs[i] + FSize(d.fs[i], ps, Dev) : i \in 1..Len(d.fs)}) < AlignOf(d, ps, Dev)
LayoutOK  == phase = "done" /\ Sampled /\ Fixed => WellLaid(TheDef, psz)
SizeOK    == phase = "done" /\ Sampled /\ Fixed => Len(Image) = SizeOf(TheDef, psz, Dev)
RoundTrip == phase = "done" /\ Sampled =>
               LET r == Unpack(TheDef, Image \o Filler, 0, psz, Dev) IN
               /\ r.n = Len(Image) /\ r.x <= Len(Image)
               /\ (~HasUnion(TheDef) => r.v = Vals)
               /\ Pack(TheDef, r.v, psz, Dev) = Image
(* 32-bit layout never exceeds the 64-bit one *)
Monotone  == phase = "done" /\ Sampled /\ Fixed => SizeOf(TheDef, 32, Dev) <= SizeOf(TheDef, 64, Dev)

-----------------------------------------------------------------------------
(* G: the case as the replayer gets it. Everything the replayer compares    *)
(* against is computed here.                                                *)
(* cheap syntactic shape tests: a deviation is only evaluated where it can matter *)
RECURSIVE HasT(_, _), HasArrOfDefs(_), HasPackedNest(_), HasLooseInPacked(_), HasNest(_), HasLoose(_)
HasT(d, T) == \E i \in 1..Len(d.fs) : IF d.fs[i].k = "nest" THEN HasT(d.fs[i].d, T) ELSE d.fs[i].t \in T
HasArrOfDefs(d) == \E i \in 1..Len(d.fs) : \/ (d.fs[i].n > 0 /\ (d.fs[i].k = "nest" \/ d.fs[i].td))
                                            \/ (d.fs[i].k = "nest" /\ HasArrOfDefs(d.fs[i].d))
HasPackedNest(d) == \E i \in 1..Len(d.fs) : d.fs[i].k = "nest" /\ (d.fs[i].d.packed \/ HasPackedNest(d.fs[i].d))
RECURSIVE HasSLeb(_)
HasSLeb(d) == \E i \in 1..Len(d.fs) : (d.fs[i].k = "leb" /\ IsSigned(d.fs[i].t)) \/ (d.fs[i].k = "nest" /\ HasSLeb(d.fs[i].d))
HasLooseInPacked(d) == \E i \in 1..Len(d.fs) : d.fs[i].k = "nest" /\ ((d.packed /\ ~d.fs[i].d.packed) \/ HasLooseInPacked(d.fs[i].d))
RECURSIVE HasTdInPacked(_)
HasTdInPacked(d) == \E i \in 1..Len(d.fs) : (d.packed /\ d.fs[i].td) \/ (d.fs[i].k = "nest" /\ HasTdInPacked(d.fs[i].d))
HasNest(d) == \E i \in 1..Len(d.fs) : d.fs[i].k = "nest"
HasLoose(d) == (d.kind = "struct" /\ ~d.packed) \/ \E i \in 1..Len(d.fs) : d.fs[i].k = "nest" /\ HasLoose(d.fs[i].d)
CanMatter(x) ==
  CASE x = "SLongU"          -> HasT(TheDef, {"l"})
    [] x = "AbsAlign"        -> HasLooseInPacked(TheDef) \/ HasTdInPacked(TheDef)
    [] x = "ArrLenCount"     -> HasArrOfDefs(TheDef)
    [] x = "LenNative"       -> psz = 32 /\ HasNest(TheDef) /\ HasT(TheDef, {"l", "L", "P"})
    [] x = "PackedNestAlign" -> HasPackedNest(TheDef)
    [] x = "SLebU"           -> HasSLeb(TheDef)
    [] x = "PadAtEnd"        -> HasLoose(TheDef)
    [] x = "UnionNoPad"      -> HasUnion(TheDef)
    [] x = "UnionIdxNative"  -> psz = 32 /\ HasUnion(TheDef) /\ HasT(TheDef, {"l", "L", "P"})
LayoutDevs == IF HasPackedNest(TheDef) \/ TheDef.packed THEN {{"PackedNestAlign"}} ELSE {}
(* The two sign deviations (SLongU, SLebU) only change how the bytes of one scalar are read, never *)
(* where: instead of enumerating them in the subsets below every prediction comes in two readings *)
(* (vals: signs as defined; valsU: both sign deviations on) and the replayer accepts, member by   *)
(* member, either reading, naming the deviation whenever it needed the second one.                *)
SignDevs == {x \in {"SLongU", "SLebU"} : CanMatter(x)}
UnpDevNames == {x \in {"AbsAlign", "ArrLenCount", "LenNative", "PackedNestAlign"} : CanMatter(x)}
PackDevNames == {x \in {"PadAtEnd", "UnionNoPad", "UnionIdxNative", "PackedNestAlign", "SLebU"} : CanMatter(x)}
SetToSeq(S) == LET RECURSIVE F(_) F(T) == IF T = {} THEN <<>> ELSE LET x == CHOOSE x \in T : TRUE IN <<x>> \o F(T \ {x}) IN F(S)
(* offsets in the shape of StructCore.offsets(): one <<offset, size>> per field, and for a bitfield *)
(* unit of a structure one <<offset of the unit, -1>> per sub-field                               *)
FlatOffs(d, ps, D) ==
  LET offs == Offsets(d, ps, D) IN
  Flat([i \in 1..Len(d.fs) |-> IF d.fs[i].k = "bits" /\ d.kind # "union" THEN [j \in 1..Len(d.fs[i].bits) |-> <<offs[i], 0 - 1>>]
                                                     ELSE <<<<offs[i], FSize(d.fs[i], ps, D)>>>>])
(* the alignment amoco can be asked for is MemberAlign of the top-level definition's members as  *)
(* seen from outside: AlignOf                                                                     *)
Lay(D) == [size |-> SizeOf(TheDef, psz, D), align |-> AlignOf(TheDef, psz, D), offs |-> FlatOffs(TheDef, psz, D)]
RECURSIVE Slim(_)
Slim(d) == [kind |-> d.kind, packed |-> d.packed,
            fs |-> [i \in 1..Len(d.fs) |->
                      LET f == d.fs[i] IN
                      IF f.k = "nest" THEN [k |-> f.k, t |-> f.t, n |-> f.n, o |-> f.o, bits |-> f.bits, d |-> Slim(f.d)]
                      ELSE [k |-> f.k, t |-> f.t, n |-> f.n, o |-> f.o, bits |-> f.bits]]]
Case ==
  LET data == Image \o Filler
      exp  == Unpack(TheDef, data, 0, psz, {}).v
      lay  == Lay({})
      two(D) == IF SignDevs = {} THEN <<Unpack(TheDef, data, 0, psz, D)>>
                ELSE <<Unpack(TheDef, data, 0, psz, D), Unpack(TheDef, data, 0, psz, D \cup SignDevs)>>
  IN [ps |-> psz, vc |-> vcl, def |-> Slim(TheDef),
      decls |-> Decls(TheDef, "D"), typedefs |-> SetToSeq(Typedefs(TheDef)),
      fixed |-> Fixed,
      lay |-> IF Fixed THEN lay ELSE [size |-> 0 - 1, align |-> 0, offs |-> <<>>],
      layDev |-> IF Fixed THEN SetToSeq({[devs |-> SetToSeq(D), lay |-> Lay(D)] : D \in {D \in LayoutDevs : Lay(D) # lay}})
                 ELSE <<>>,
      data |-> data, nbytes |-> Len(Image),
      vals |-> exp,
      valsU |-> IF SignDevs = {} THEN <<>> ELSE Unpack(TheDef, data, 0, psz, SignDevs).v,
      signDevs |-> SetToSeq(SignDevs),
      valsDev |-> LET U    == [D \in (SUBSET UnpDevNames) \ {{}} |-> two(D)]
                      sig(D) == <<U[D][1].v, U[D][Len(U[D])].v, U[D][1].x > Len(data)>>     \* both readings, out of bounds
                      sig0  == <<exp, two({})[Len(two({}))].v, FALSE>>
                      cands == {D \in DOMAIN U : sig(D) # sig0}
                      \* keep, for every distinct wrong result, the smallest deviation sets producing it
                      minimal == {D \in cands : ~\E E \in cands : E # D /\ E \subseteq D /\ sig(E) = sig(D)}
                  IN SetToSeq({[devs |-> SetToSeq(D), vals |-> U[D][1].v, oob |-> U[D][1].x > Len(data),
                                valsU |-> IF SignDevs = {} THEN <<>> ELSE U[D][2].v,
                                trig |-> UnpTrig(TheDef, U[D][1].v, psz, TRUE)] : D \in minimal}),
      unpTrig |-> UnpTrig(TheDef, exp, psz, TRUE),
      bytesDev |-> LET P    == [D \in (SUBSET PackDevNames) \ {{}} |-> Pack(TheDef, exp, psz, D)]
                       cands == {D \in DOMAIN P : P[D] # Image}
                       minimal == {D \in cands : ~\E E \in cands : E # D /\ E \subseteq D /\ P[E] = P[D]}
                   IN SetToSeq({[devs |-> SetToSeq(D), bytes |-> P[D]] : D \in minimal}),
      packTrig |-> PackTrig(TheDef, exp)]
Emit == (phase = "done" /\ Mode = "gen" /\ Sampled) => PrintT(ToJson(Case))
=============================================================================
