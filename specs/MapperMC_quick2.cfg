\* C09 M (quick): repaired design, concrete start state holding its initial memory; noaliasing without memtrace
CONSTANTS
  Ptrs = {"p", "q"}
  Offs = {0, 1}
  Sizes = {1, 2}
  Deltas <- DeltasSmall
  P0 = 4
  Top = 10
  NAs = {TRUE, FALSE}
  MTs = {TRUE, FALSE}
  Ens <- EnsBoth
  MInits = {1}
  VKs = {"d"}
  MaxSt = 2
  MaxLd = 0
  MaxLen = 2
  Template <- NoTemplate
  Q = {}
  Clauses <- AllClauses
  Probe = TRUE
  PvInState = FALSE
  Gen = FALSE
INIT Init
NEXT Next
CHECK_DEADLOCK FALSE
INVARIANTS Correct
