\* behaviour generator (quick): every history of 3 actions, addresses 0..4, sizes 1..2
CONSTANTS
  MaxAddr = 4
  Sizes = {1, 2}
  MaxOps = 3
  Zones = {"none"}
  Maps = 1
  Shifts = {}
  GenHist = TRUE
  Dev = {}
INIT Init
NEXT Next
CONSTRAINT Emit
CHECK_DEADLOCK FALSE
