\* C15 G (raw / HEX / SREC through the raw loader): every stream of the small scope (BFS), no corruptions
CONSTANTS
  Dev = ""
  Fmts = {"hex", "srec", "raw"}
  Seeds = {5}
  MaxRecs = 2
  AllowMixed = TRUE
  NCorrupt = 0
  Subst0 = {48}
  WithRelocs = TRUE
  Lens = {0, 3}
INIT Init
NEXT Next
CONSTRAINT Emit
CHECK_DEADLOCK FALSE
