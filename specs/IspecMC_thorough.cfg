\* M (layout): buildspec transcription vs documented meaning on every format, ill-formed ones included
CONSTANTS
  Lens = {8, 0}
  Dirs = {"<", ">"}
  MaxDirs = 4
  FieldLens = {0, 1, 3, 4}
  Opts = {"", "#"}
  EqLens = {1, 2}
  ByteVals = {47}
  Stars = TRUE
  Classes = {"core"}
  Styles = {"spaced"}
  Sfx = {"none"}
  Slack = 3
  VarMax = 8
  ModRMs = {8, 2, 5}
  Fill = FALSE
  DupNames = TRUE
  Gen = FALSE
  WordMode = "boundary"
  NRand = 0
  Dev = {}
INIT Init
NEXT Next
INVARIANT DocImpl
INVARIANT FieldsInside
INVARIANT MaskExact
INVARIANT Mirror
CHECK_DEADLOCK FALSE
