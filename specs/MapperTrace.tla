----------------------------- MODULE MapperTrace -----------------------------
(***************************************************************************)
(* C09 - validation of store/load programs executed on a real amoco mapper  *)
(* (harness/c09.py).                                                        *)
(*                                                                          *)
(* TRACE_FILE: NDJSON, one executed case per line                           *)
(*   [t, cf = [na, mt, en, mi], prog, pv, dv, imlo, im, cregs,              *)
(*    raised, at,                    "" or the exception amoco raised       *)
(*    loads = <<[r, n, tree]>>,      the loaded registers of  c >> m        *)
(*    mem   = <<[a, tree]>>,         every byte of the resulting memory     *)
(*    items = <<[loc, val]>>]        the pointer items of the resulting map *)
(* in real units (byte sizes, absolute addresses, byte values). The spec    *)
(* runs the byte-level sequential machine of MapperOps on the program and   *)
(* interprets every logged tree with ExprMods!EvalM (a mem with mods is     *)
(* read together with its mods). Clauses (each is the property):            *)
(*   Total   the calls do not raise                                         *)
(*   Loads   every loaded register, when its tree has a value, has the      *)
(*           value the byte machine loaded                                  *)
(*   Memory  every byte of the resulting memory zone is the byte machine's  *)
(*   Items   the pointer items of the resulting map, performed in order,    *)
(*           give the byte machine's memory                                 *)
(* Unknown (a tree without a value) satisfies every clause. Under           *)
(* noaliasing a case in which ranges accessed through different pointers    *)
(* overlap is outside the claim ("excluded"); Memory/Items are not claimed  *)
(* when memory writes are not kept as map items (noaliasing, no memtrace).  *)
(*                                                                          *)
(* When a clause fails, the transcribed mapper of MapperOps is run on the   *)
(* same case for quirk sets of increasing size: the failure is attributed   *)
(* to the first (smallest) set of named quirks whose prediction equals      *)
(* EVERY value amoco produced in this case; known_findings.json decides     *)
(* whether those quirks are listed findings. A failing case that no quirk   *)
(* set predicts exactly is reported with quirks = {} (a new violation).     *)
(***************************************************************************)
EXTENDS MapperOps, ExprMods, IOUtils

Traces == ndJsonDeserialize(IOEnv.TRACE_FILE)

VARIABLES tid, done
vars == <<tid, done>>

T == Traces[tid]
Cf == [na |-> T.cf.na = 1, mt |-> T.cf.mt = 1, en |-> T.cf.en]
Recorded == Cf.mt \/ ~Cf.na
MkSt0 == LET n0 == Len(T.im) IN
         [pv |-> T.pv, minit |-> T.cf.mi, dv |-> T.dv,
          im |-> [a \in T.imlo..(T.imlo + n0 - 1) |-> T.im[a - T.imlo + 1]],
          ima |-> [i \in 1..n0 |-> T.imlo + i - 1],
          regs |-> T.cregs]

(* observed values: bits (least significant first), or Unknown               *)
LoadObs(i, env) == EvalM(T.loads[i].tree, env)
MemObs(i, env) ==
  LET o == T.mem[i] IN
  IF o.tree.k = "bot" THEN ByteBits(env.mem[o.a], 0)         \* never written: still the initial byte
  ELSE EvalM(o.tree, env)
ItemsObs(env) ==
  LET m == ReplayM(env.mem, T.items, Cf.en, env) IN
  IF IsU(m) THEN Unknown ELSE [a \in DOMAIN env.mem |-> m[a]]

BadTree(t) == t.k \in {"missing", "raised", "odd", "deep", "unk"}

(* first failing <<clause, index>> against the byte machine, <<>> if none     *)
FirstFail(C, LO, MO, IO) ==
  LET badl == {i \in 1..Len(T.loads) : BadTree(T.loads[i].tree) \/ (~IsU(LO[i]) /\ LO[i] # BytesBits(C.regs[T.loads[i].r]))}
      badm == {i \in 1..Len(T.mem) : BadTree(T.mem[i].tree) \/ (~IsU(MO[i]) /\ MO[i] # ByteBits(C.mem[T.mem[i].a], 0))}
  IN IF badl # {} THEN <<"Loads", CHOOSE i \in badl : \A j \in badl : i <= j>>
     ELSE IF Recorded /\ badm # {} THEN <<"Memory", CHOOSE i \in badm : \A j \in badm : i <= j>>
     ELSE IF Recorded /\ ~IsU(IO) /\ IO # C.mem THEN <<"Items", 0>>
     ELSE <<>>

(* does the transcribed mapper with quirk set Q predict every value amoco produced? *)
Matches(Q, st0, LO, MO, IO) ==
  LET mm == Predict(T.prog, st0, Q, Cf)
      zf == ZoneFinal(mm, st0)
  IN /\ \A i \in 1..Len(T.loads) : IsU(LO[i]) \/ BytesBits(RefVal(RegVal(mm, T.loads[i].r), st0)) = LO[i]
     /\ Recorded => \A i \in 1..Len(T.mem) : IsU(MO[i]) \/ ByteBits(zf[T.mem[i].a], 0) = MO[i]
     /\ (Recorded /\ ~IsU(IO)) => RefFinal(mm, st0, Cf.en) = IO

(* attribution: amoco as it is (all quirks) must predict the case; then quirks are dropped  *)
(* one at a time, in a fixed order, as long as the prediction still equals every observed   *)
(* value: the result is an irreducible set of quirks that explains the case, {} if even the *)
(* full as-is model does not                                                               *)
QuirkOrder == IF Cf.en = 1 THEN <<"EmptyMapShortcut", "AliasKeySize", "KeyedStores">>
              ELSE <<"EmptyMapShortcut", "AliasKeySize", "KeyedStores", "MergeLE", "BottomLE", "PtrKeyLE">>
RECURSIVE Shrink(_, _, _, _, _, _)
Shrink(S, i, st0, LO, MO, IO) ==
  IF i > Len(QuirkOrder) THEN S
  ELSE LET S2 == S \ {QuirkOrder[i]} IN
       Shrink(IF S2 # {} /\ Matches(S2, st0, LO, MO, IO) THEN S2 ELSE S, i + 1, st0, LO, MO, IO)
(* fall-back when the tree has been partly repaired (amoco with ALL quirks no longer predicts the case): the *)
(* smallest non-empty quirk set that does, searched by increasing size                                        *)
RECURSIVE Smallest(_, _, _, _, _)
Smallest(k, st0, LO, MO, IO) ==
  LET all == {QuirkOrder[i] : i \in 1..Len(QuirkOrder)} IN
  IF k >= Cardinality(all) THEN {}
  ELSE LET S == {q \in SUBSET all : Cardinality(q) = k /\ Matches(q, st0, LO, MO, IO)} IN
       IF S # {} THEN CHOOSE q \in S : TRUE ELSE Smallest(k + 1, st0, LO, MO, IO)
Explain(st0, LO, MO, IO) ==
  LET all == {QuirkOrder[i] : i \in 1..Len(QuirkOrder)} IN
  IF Matches(all, st0, LO, MO, IO) THEN Shrink(all, 1, st0, LO, MO, IO) ELSE Smallest(1, st0, LO, MO, IO)

Verdict ==
  LET st0 == MkSt0 IN
  IF T.raised # "" THEN [t |-> T.t, v |-> "fail", clause |-> "Total", idx |-> T.at, quirks |-> {}, unk |-> 0, nobs |-> 0]
  ELSE IF Cf.na /\ ~Disjoint(T.prog, st0) THEN [t |-> T.t, v |-> "excluded", clause |-> "", idx |-> 0, quirks |-> {}, unk |-> 0, nobs |-> 0]
  ELSE
    LET env == [regs |-> <<>>, mem |-> st0.im]
        C  == ConcRun(Conc0(st0), T.prog, st0, Cf.en)
        LO == [i \in 1..Len(T.loads) |-> LoadObs(i, env)]
        MO == [i \in 1..Len(T.mem) |-> MemObs(i, env)]
        IO == ItemsObs(env)
        ff == FirstFail(C, LO, MO, IO)
        unk == Cardinality({i \in 1..Len(T.loads) : IsU(LO[i])}) + Cardinality({i \in 1..Len(T.mem) : IsU(MO[i])})
                 + (IF IsU(IO) THEN 1 ELSE 0)
        nobs == Len(T.loads) + Len(T.mem) + 1
    IN IF ff = <<>> THEN [t |-> T.t, v |-> "ok", clause |-> "", idx |-> 0, quirks |-> {}, unk |-> unk, nobs |-> nobs]
       ELSE [t |-> T.t, v |-> "fail", clause |-> ff[1], idx |-> ff[2], quirks |-> Explain(st0, LO, MO, IO),
             unk |-> unk, nobs |-> nobs]

(* diagnostics for a replayed case (trace records carrying dbg = 1): observed / byte machine /  *)
(* as-is model, per load and per differing memory byte                                          *)
Bts(v) == IF IsU(v) THEN <<"U">> ELSE [k \in 1..(Len(v) \div 8) |-> ToNat(Slice(v, 8 * (k - 1), 8))]
Detail ==
  LET st0 == MkSt0
      env == [regs |-> <<>>, mem |-> st0.im]
      C  == ConcRun(Conc0(st0), T.prog, st0, Cf.en)
      mm == Predict(T.prog, st0, AsIs, Cf)
      zf == ZoneFinal(mm, st0)
      sm == SymRun(EmptyMs, T.prog, AsIs, Cf)
  IN [loads |-> [i \in 1..Len(T.loads) |-> [r |-> T.loads[i].r, obs |-> Bts(LoadObs(i, env)), exp |-> C.regs[T.loads[i].r],
                                            asis |-> RefVal(RegVal(mm, T.loads[i].r), st0),
                                            sym |-> RegVal(sm, T.loads[i].r)]],
      mem |-> [i \in {j \in 1..Len(T.mem) : Bts(MemObs(j, env)) # <<C.mem[T.mem[j].a]>> \/ zf[T.mem[j].a] # C.mem[T.mem[j].a]} |->
                 [a |-> T.mem[i].a, obs |-> Bts(MemObs(i, env)), exp |-> C.mem[T.mem[i].a], asis |-> zf[T.mem[i].a]]],
      symmap |-> sm.map]

Init == tid \in 1..Len(Traces) /\ done = FALSE
Next == /\ ~done /\ done' = TRUE /\ UNCHANGED tid
        /\ PrintT(ToJson(Verdict))
        /\ ("dbg" \in DOMAIN T => PrintT(Detail))
Spec == Init /\ [][Next]_vars
=============================================================================
