--------------------------------- MODULE Elf ---------------------------------
(***************************************************************************)
(* The ELF object-file format at the level property C14 speaks at:         *)
(*   - the layout tables of the file header, program header, section       *)
(*     header and symbol entry for the 4 class x byte-order combinations   *)
(*     (System V gABI, figures 4-3, 4-8, 5-1, 4-16 and the ELF-64 object   *)
(*     file format, tables 7, 14, 1, 8: 64-bit reorders Phdr and Sym);     *)
(*   - Encode(A): the file bytes of an abstract image A (ident, header,    *)
(*     0.. program headers, sections with their names, symbols with their  *)
(*     names, tables at arbitrary file positions);                         *)
(*   - Decode / Report(bytes): what the file encodes - header fields,      *)
(*     tables, section names (through e_shstrndx), symbols and their names *)
(*     (through sh_link), entry point;                                     *)
(*   - the queries FileOffset(R, vaddr), SectionsOf(R, vaddr).             *)
(* All field values are "digits" (see Bytes.tla), so the same definitions  *)
(* serve 32- and 64-bit fields.  Dev names a deliberate fault (used by the *)
(* self-test config only; "" everywhere else).                             *)
(***************************************************************************)
EXTENDS Integers, Sequences, FiniteSets, TLC, Bytes

AW(cls) == IF cls = 64 THEN 8 ELSE 4                 \* Elf32_Addr/Off/Word vs Elf64_Addr/Off/Xword

EhdrL(cls) == << F("e_type", 2), F("e_machine", 2), F("e_version", 4), F("e_entry", AW(cls)),
                 F("e_phoff", AW(cls)), F("e_shoff", AW(cls)), F("e_flags", 4), F("e_ehsize", 2),
                 F("e_phentsize", 2), F("e_phnum", 2), F("e_shentsize", 2), F("e_shnum", 2),
                 F("e_shstrndx", 2) >>
PhdrL(cls) == IF cls = 64
              THEN << F("p_type", 4), F("p_flags", 4), F("p_offset", 8), F("p_vaddr", 8), F("p_paddr", 8),
                      F("p_filesz", 8), F("p_memsz", 8), F("p_align", 8) >>
              ELSE << F("p_type", 4), F("p_offset", 4), F("p_vaddr", 4), F("p_paddr", 4), F("p_filesz", 4),
                      F("p_memsz", 4), F("p_flags", 4), F("p_align", 4) >>
ShdrL(cls) == << F("sh_name", 4), F("sh_type", 4), F("sh_flags", AW(cls)), F("sh_addr", AW(cls)),
                 F("sh_offset", AW(cls)), F("sh_size", AW(cls)), F("sh_link", 4), F("sh_info", 4),
                 F("sh_addralign", AW(cls)), F("sh_entsize", AW(cls)) >>
SymL(cls)  == IF cls = 64
              THEN << F("st_name", 4), F("st_info", 1), F("st_other", 1), F("st_shndx", 2),
                      F("st_value", 8), F("st_size", 8) >>
              ELSE << F("st_name", 4), F("st_value", 4), F("st_size", 4), F("st_info", 1),
                      F("st_other", 1), F("st_shndx", 2) >>

IdentSize  == 16
EhdrSize(cls) == IdentSize + SizeOf(EhdrL(cls))      \* 52 / 64
PhdrSize(cls) == SizeOf(PhdrL(cls))                  \* 32 / 56
ShdrSize(cls) == SizeOf(ShdrL(cls))                  \* 40 / 64
SymSize(cls)  == SizeOf(SymL(cls))                   \* 16 / 24

(* constants of the format used below *)
PT_LOAD == 1
SHT_NULL == 0   SHT_PROGBITS == 1   SHT_SYMTAB == 2   SHT_STRTAB == 3   SHT_NOBITS == 8   SHT_DYNSYM == 11
SHF_ALLOC == 2

CONSTANT Dev           \* "" or the name of a seeded fault

(* ======================= Decode: bytes -> what the file encodes ===========*)
HasIdent(b) == Len(b) >= IdentSize /\ b[1] = 127 /\ b[2] = 69 /\ b[3] = 76 /\ b[4] = 70
               /\ b[5] \in {1, 2} /\ b[6] \in {1, 2}
ClsOf(b) == IF b[5] = 2 THEN 64 ELSE 32
OrdOf(b) == IF b[6] = 2 THEN "BE" ELSE "LE"

\* a file position / size held in a field, capped to the file length (so that a damaged field cannot
\* make the definitions below run away; well-formed files are not affected)
Cap(b, d) == IF FitsNat(d) /\ ToNat(d) <= Len(b) THEN ToNat(d) ELSE Len(b)

EhdrOf(b) ==
  LET e == Unpack(EhdrL(ClsOf(b)), b, IdentSize, OrdOf(b))
  IN IF Dev = "Swap64BEOff" /\ ClsOf(b) = 64 /\ OrdOf(b) = "BE"
     THEN [e EXCEPT !.e_phoff = e.e_shoff, !.e_shoff = e.e_phoff] ELSE e

TableOf(b, L, off, entsize, num) == Tup([i \in 1..num |-> Unpack(L, b, off + (i - 1) * entsize, OrdOf(b))])

PhdrsOf(b) == LET e == EhdrOf(b) IN
  IF IsZeroD(e.e_phoff) THEN <<>>
  ELSE TableOf(b, PhdrL(ClsOf(b)), Cap(b, e.e_phoff), ToNat(e.e_phentsize), ToNat(e.e_phnum))
ShdrsOf(b) == LET e == EhdrOf(b) IN
  IF IsZeroD(e.e_shoff) THEN <<>>
  ELSE TableOf(b, ShdrL(ClsOf(b)), Cap(b, e.e_shoff), ToNat(e.e_shentsize), ToNat(e.e_shnum))

TypeIs(d, t) == FitsNat(d) /\ ToNat(d) = t

\* string at index idx (digits) of the string-table section s (a Shdr record)
StrAt(b, s, idx) ==
  LET o == Cap(b, s.sh_offset)  z == Cap(b, s.sh_size)
  IN IF ~FitsNat(idx) \/ ToNat(idx) >= z THEN <<>> ELSE CStr(b, o + ToNat(idx), Min2(o + z, Len(b)))

\* section names: through the section e_shstrndx, if that is a string table
NamedOf(b, sh) == LET n == ToNat(EhdrOf(b).e_shstrndx) IN n # 0 /\ n < Len(sh) /\ TypeIs(sh[n + 1].sh_type, SHT_STRTAB)
SecNamesOf(b, sh) ==
  IF NamedOf(b, sh) THEN Tup([i \in 1..Len(sh) |-> StrAt(b, sh[ToNat(EhdrOf(b).e_shstrndx) + 1], sh[i].sh_name)])
  ELSE Tup([i \in 1..Len(sh) |-> <<>>])

\* symbol tables: every SHT_SYMTAB / SHT_DYNSYM section; names through the string table sh_link
IsSymTab(s) == TypeIs(s.sh_type, SHT_SYMTAB) \/ TypeIs(s.sh_type, SHT_DYNSYM)
SymTabIdx(sh) == {i \in 1..Len(sh) : IsSymTab(sh[i]) /\ FitsNat(sh[i].sh_entsize) /\ ToNat(sh[i].sh_entsize) > 0}
SymTabOf(b, sh, i) ==
  LET s    == sh[i]
      ent  == ToNat(s.sh_entsize)
      n    == Cap(b, s.sh_size) \div ent
      syms == TableOf(b, SymL(ClsOf(b)), Cap(b, s.sh_offset), ent, n)
      lk   == IF FitsNat(s.sh_link) THEN ToNat(s.sh_link) ELSE Len(sh)
      linkok == lk < Len(sh) /\ TypeIs(sh[lk + 1].sh_type, SHT_STRTAB)
      nlk  == IF Dev = "SymNameInShstr" THEN ToNat(EhdrOf(b).e_shstrndx) ELSE lk
  IN [sec |-> i - 1, strsec |-> IF linkok THEN lk ELSE -1, syms |-> syms,
      names |-> Tup([k \in 1..n |-> IF linkok THEN StrAt(b, sh[nlk + 1], syms[k].st_name) ELSE <<>>])]

Report(b) ==
  LET sh == ShdrsOf(b)  e == EhdrOf(b)
  IN [ident |-> << b[5], b[6], b[7], b[8], b[9] >>,
      eh |-> e, ph |-> PhdrsOf(b), sh |-> sh,
      named |-> NamedOf(b, sh), names |-> SecNamesOf(b, sh),
      symtabs |-> LET ix == SetToSeq(SymTabIdx(sh)) IN Tup([k \in 1..Len(ix) |-> SymTabOf(b, sh, ix[k])]),
      entry |-> e.e_entry]

(* ======================= Queries on a report ================================*)
LoadSegs(R)      == {k \in DOMAIN R.ph : TypeIs(R.ph[k].p_type, PT_LOAD)}
FileSegsAt(R, a) == {k \in LoadSegs(R) : InD(a, R.ph[k].p_vaddr, R.ph[k].p_filesz)}     \* file-backed part
MemSegsAt(R, a)  == {k \in LoadSegs(R) : InD(a, R.ph[k].p_vaddr, R.ph[k].p_memsz)}
\* address -> file offset: p_offset + (a - p_vaddr) of the loadable segment whose file-backed part holds a
FileOffset(R, a) == LET S == FileSegsAt(R, a) IN
  IF S = {} THEN <<>> ELSE LET k == CHOOSE k \in S : \A j \in S : k <= j
                           IN AddD(R.ph[k].p_offset, SubD(a, R.ph[k].p_vaddr))
\* address -> sections: the sections that occupy memory (SHF_ALLOC) and whose [sh_addr, sh_addr+sh_size) holds a
IsAlloc(s) == (s.sh_flags[1] \div SHF_ALLOC) % 2 = 1
SectionsOf(R, a) == {i \in DOMAIN R.sh : IsAlloc(R.sh[i]) /\ ~TypeIs(R.sh[i].sh_type, SHT_NULL)
                                         /\ InD(a, R.sh[i].sh_addr, R.sh[i].sh_size)}
ProgbitsOf(R, a) == {i \in SectionsOf(R, a) : TypeIs(R.sh[i].sh_type, SHT_PROGBITS)}
\* file offset through the section table (sections with file content)
SecFileOffset(R, i, a) == AddD(R.sh[i].sh_offset, SubD(a, R.sh[i].sh_addr))

Query(R, a) ==
  [a |-> a, fo |-> FileOffset(R, a),
   fsegs |-> SetToSeq({k - 1 : k \in FileSegsAt(R, a)}), msegs |-> SetToSeq({k - 1 : k \in MemSegsAt(R, a)}),
   secs |-> SetToSeq({i - 1 : i \in SectionsOf(R, a)}), psecs |-> SetToSeq({i - 1 : i \in ProgbitsOf(R, a)}),
   secfo |-> LET P == ProgbitsOf(R, a) IN
             IF P = {} THEN <<>> ELSE SecFileOffset(R, CHOOSE i \in P : \A j \in P : i >= j, a)]

(* ======================= Encode: abstract image -> bytes ====================*)
(* A = [cls, ord, ver, osabi, abiver, type, machine, version, entry, flags,                      *)
(*      ph: Seq(Phdr record), phpos, phent,                                                       *)
(*      sec: Seq([kind, name, type, flags, addr, link, info, addralign, entsize, pos, data, nbsize]), *)
(*      shpos, shent, shstrndx, sym: Seq([name, value, size, info, other, shndx]), size, fill]     *)
(* kind: "null" | "bits" (content = data) | "nobits" (no content, size nbsize) |                  *)
(*       "shstr" (the section-name string table) | "symtab" | "strtab" (symbol names)             *)
RECURSIVE StrIdx(_, _)
StrIdx(names, k) == IF k = 1 THEN 1 ELSE StrIdx(names, k - 1) + Len(names[k - 1]) + 1   \* index of the k-th name
StrTabOf(names) == <<0>> \o Flat(Tup([k \in 1..Len(names) |-> names[k] \o <<0>>]))

SecNames(A)     == Tup([i \in 1..Len(A.sec) |-> A.sec[i].name])
ShNameIdx(A, i) == IF A.shstrndx = 0 \/ A.sec[i].kind = "null" THEN 0 ELSE StrIdx(SecNames(A), i)
SymNames(A)     == Tup([k \in 1..Len(A.sym) |-> A.sym[k].name])
SymRec(A, k)    == LET s == A.sym[k] IN
  [st_name |-> Digits(IF s.name = <<>> THEN 0 ELSE StrIdx(SymNames(A), k), 4), st_value |-> s.value, st_size |-> s.size,
   st_info |-> <<s.info>>, st_other |-> <<s.other>>, st_shndx |-> s.shndx]
SymTabData(A)   == Zeros(SymSize(A.cls)) \o Flat(Tup([k \in 1..Len(A.sym) |-> Pack(SymL(A.cls), SymRec(A, k), A.ord)]))

SecData(A, i) == LET s == A.sec[i] IN
  CASE s.kind = "bits"   -> s.data
    [] s.kind = "shstr"  -> StrTabOf(SecNames(A))
    [] s.kind = "symtab" -> SymTabData(A)
    [] s.kind = "strtab" -> StrTabOf(SymNames(A))
    [] OTHER             -> <<>>
SecSize(A, i) == IF A.sec[i].kind = "nobits" THEN A.sec[i].nbsize ELSE Digits(Len(SecData(A, i)), AW(A.cls))
ShdrRec(A, i) == LET s == A.sec[i] IN
  [sh_name |-> Digits(ShNameIdx(A, i), 4), sh_type |-> s.type, sh_flags |-> s.flags, sh_addr |-> s.addr,
   sh_offset |-> Digits(s.pos, AW(A.cls)), sh_size |-> SecSize(A, i), sh_link |-> s.link, sh_info |-> s.info,
   sh_addralign |-> s.addralign, sh_entsize |-> s.entsize]
EhdrRec(A) ==
  [e_type |-> A.type, e_machine |-> A.machine, e_version |-> A.version, e_entry |-> A.entry,
   e_phoff |-> Digits(A.phpos, AW(A.cls)), e_shoff |-> Digits(A.shpos, AW(A.cls)), e_flags |-> A.flags,
   e_ehsize |-> Digits(EhdrSize(A.cls), 2),
   e_phentsize |-> Digits(A.phent, 2), e_phnum |-> Digits(Len(A.ph), 2),
   e_shentsize |-> Digits(A.shent, 2), e_shnum |-> Digits(Len(A.sec), 2), e_shstrndx |-> Digits(A.shstrndx, 2)]
IdentOf(A) == << 127, 69, 76, 70, IF A.cls = 64 THEN 2 ELSE 1, IF A.ord = "BE" THEN 2 ELSE 1, A.ver, A.osabi, A.abiver,
                 0, 0, 0, 0, 0, 0, 0 >>

\* the pieces of the file: <<position, bytes>>
Chunks(A) ==
  << << 0, IdentOf(A) \o Pack(EhdrL(A.cls), EhdrRec(A), A.ord) >> >>
  \o Tup([k \in 1..Len(A.ph)  |-> << A.phpos + (k - 1) * A.phent, Pack(PhdrL(A.cls), A.ph[k], A.ord) >>])
  \o Tup([i \in 1..Len(A.sec) |-> << A.shpos + (i - 1) * A.shent, Pack(ShdrL(A.cls), ShdrRec(A, i), A.ord) >>])
  \o Tup([i \in 1..Len(A.sec) |-> << A.sec[i].pos, SecData(A, i) >>])
Disjoint(A) == ChunksDisjoint(Chunks(A), A.size)
Encode(A) == LayOut(Chunks(A), A.fill, A.size)       \* requires Disjoint(A)

\* what a faithful reader must report for A (stated from A, not from the bytes)
Expected(A) ==
  LET symsecs == SetToSeq({i \in 1..Len(A.sec) : A.sec[i].kind = "symtab"})
      strsec  == {i \in 1..Len(A.sec) : A.sec[i].kind = "strtab"}
  IN [ident |-> << IF A.cls = 64 THEN 2 ELSE 1, IF A.ord = "BE" THEN 2 ELSE 1, A.ver, A.osabi, A.abiver >>,
      eh |-> EhdrRec(A),
      ph |-> A.ph,
      sh |-> Tup([i \in 1..Len(A.sec) |-> ShdrRec(A, i)]),
      named |-> A.shstrndx # 0,
      names |-> Tup([i \in 1..Len(A.sec) |-> IF A.shstrndx # 0 THEN A.sec[i].name ELSE <<>>]),
      symtabs |-> Tup([k \in 1..Len(symsecs) |->
                    [sec |-> symsecs[k] - 1, strsec |-> ToNat(A.sec[symsecs[k]].link),
                     syms |-> <<[nm \in Names(SymL(A.cls)) |-> Zeros(SymL(A.cls)[CHOOSE j \in DOMAIN SymL(A.cls) : SymL(A.cls)[j].n = nm].w)]>>
                              \o Tup([j \in 1..Len(A.sym) |-> SymRec(A, j)]),
                     names |-> <<<<>>>> \o SymNames(A)]]),
      entry |-> A.entry]
=============================================================================
