\* C09 finding: amoco's quirk AliasKeySize ALONE (everything else repaired) must violate Correct:
\* aliasing() ignores that the recorded item is narrower than the load
CONSTANTS
  Ptrs = {"p", "q"}
  Offs = {0, 1}
  Sizes = {1, 2}
  Deltas <- DeltasSmall
  P0 = 4
  Top = 10
  NAs = {FALSE}
  MTs = {TRUE}
  Ens <- EnsLE
  MInits = {0}
  VKs = {"d"}
  MaxSt = 3
  MaxLd = 0
  MaxLen = 3
  Template <- NoTemplate
  Q = {"AliasKeySize"}
  Clauses <- AllClauses
  Probe = TRUE
  PvInState = FALSE
  Gen = FALSE
INIT Init
NEXT Next
CHECK_DEADLOCK FALSE
INVARIANTS Correct
