\* G: behaviour generator, RV32I, exhaustive BFS over a reduced class grid
CONSTANTS
  XLEN = 32
  NREG = 32
  MEMN = 32
  Dev = {}
  Triples = {}
  MCVals = {}
  ImmSel = "few"
  GPats <- GPatsGrid
  GVals <- GValsGrid
  GImms <- GImmsGrid
  GPcs = {"mid"}
  GOffs = {"odd"}
  GEnum = TRUE
INIT GInit
NEXT GNext
CONSTRAINT Emit
CHECK_DEADLOCK FALSE
