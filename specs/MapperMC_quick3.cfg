\* C09 M (quick): repaired design, loads inside the program and loaded values stored again (nested mods)
CONSTANTS
  Ptrs = {"p", "q"}
  Offs = {0, 1}
  Sizes = {1, 2}
  Deltas <- DeltasSmall
  P0 = 4
  Top = 10
  NAs = {FALSE}
  MTs = {TRUE}
  Ens <- EnsBoth
  MInits = {0}
  VKs = {"d", "r"}
  MaxSt = 2
  MaxLd = 2
  MaxLen = 3
  Template <- NoTemplate
  Q = {}
  Clauses <- AllClauses
  Probe = FALSE
  PvInState = FALSE
  Gen = FALSE
INIT Init
NEXT Next
CHECK_DEADLOCK FALSE
INVARIANTS Correct
