\* M: every one-level tree over every table of 3 specs: structural clauses imply equivalence with the scan
CONSTANTS
  U = 1
  Sizes = {1, 2}
  Endians <- EBoth
  LeafMax = 5
  MaxSpecs = 3
  HookVals = {TRUE}
  MinW = 1
  CallExtra = 0
  AnyN = 3
  Dev = {}
  Gen = FALSE
INIT Init
NEXT Next
INVARIANT AnySound
CHECK_DEADLOCK FALSE
