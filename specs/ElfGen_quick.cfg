\* C14 M+G (ELF): every image of the small scope (BFS), all 4 class x order combinations: the design check
\* Report(Encode(A)) = Expected(A) is evaluated by TLC for every image (field rt) and every image is emitted for the replayer
CONSTANTS
  Dev = ""
  Classes = {32, 64}
  Orders = {"LE", "BE"}
  Seeds = {11}
  MaxPh = 1
  MaxUser = 1
  MaxSym = 1
  Machines = {3}
  Types = {2}
  PTypes = {1}
  Layouts = {4}
  Pads = {0}
  Kinds = {"bits", "nobits"}
  SymChoices = {TRUE, FALSE}
INIT Init
NEXT Next
CONSTRAINT Emit
CHECK_DEADLOCK FALSE
