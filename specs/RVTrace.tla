------------------------------ MODULE RVTrace ------------------------------
(***************************************************************************)
(* C06, RISC-V part, code -> spec.  Validates steps recorded from amoco's   *)
(* cpu_rv32i / cpu_rv64i against the reference interpreter RVIsa.           *)
(*                                                                          *)
(* TRACE_FILE: NDJSON, one trace per line                                   *)
(*   [t |-> id, steps |-> << step >>]                                       *)
(*   step = [w    |-> the 32-bit word (2 limbs),                            *)
(*           dec  |-> 1 if amoco decoded the word, else 0,                  *)
(*           raised |-> "" | "ExcType: text"   (raised by decode or apply), *)
(*           pre  |-> [x |-> <<32 x limbs>>, pc |-> limbs,                  *)
(*                     mem |-> << <<address limbs, byte>> >>],              *)
(*           post |-> same shape; a register / pc that is not a constant    *)
(*                    after the step is <<>>, a byte that is not a constant *)
(*                    is -1]                                                *)
(*   pre and post are read from the same mapper object immediately before   *)
(*   and after instruction(mapper); mem lists EVERY byte the mapper's       *)
(*   memory holds, so bytes written anywhere are seen.                      *)
(*                                                                          *)
(* Every step is decided on its own: the spec decodes the word, executes it *)
(* on `pre' and compares all 32 registers, pc and the whole memory with     *)
(* `post'.  Loads from addresses absent from pre.mem give an unknown rd     *)
(* (not compared).  Verdicts are total: one record per trace listing every  *)
(* failing step with the first failing clause                               *)
(*   raised | pc | rd | frame (another register changed) | mem              *)
(* and every smallest set of at most two named deviations of RVIsa!Exec     *)
(* that reproduces amoco's complete post-state (the Python side matches     *)
(* them with known_findings.json; an unexplained failure has devs = {}).    *)
(* Words that are not RV32I/RV64I base instructions (or ECALL/EBREAK) are   *)
(* reported as skipped; base instructions amoco did not decode as `undec'.  *)
(***************************************************************************)
EXTENDS RVIsa, TLC, Json, IOUtils, FiniteSets

Traces == ndJsonDeserialize(IOEnv.TRACE_FILE)

VARIABLES tid, l, fails, stats, done
vars == <<tid, l, fails, stats, done>>

T == Traces[tid]
Regv(xx, i) == IF i = 0 THEN Zero(XLEN) ELSE FromLimbs(xx[i + 1], XLEN)
AddrL(ea, k) == ToLimbs(Add(ea, NBits(k, XLEN)))
MemSet(mm) == {<<p[1], p[2]>> : p \in {mm[i] : i \in 1..Len(mm)}}
Has(ms, a) == \E p \in ms : p[1] = a
ByteAt(ms, a) == (CHOOSE p \in ms : p[1] = a)[2]

(* the bytes a load needs, or <<>> when one of them is not in the recorded memory *)
Loaded(ms, ea, n) ==
  IF n = 0 \/ \E k \in 0..(n - 1) : ~Has(ms, AddrL(ea, k)) \/ (Has(ms, AddrL(ea, k)) /\ ByteAt(ms, AddrL(ea, k)) < 0)
  THEN <<>>
  ELSE BytesToBV([k \in 1..n |-> ByteAt(ms, AddrL(ea, k - 1))])

(* deviations tried for an instruction (RVIsa!Exec) *)
DevsFor(op) ==
  {"Unimplemented"} \cup
  (CASE op = "JALR" -> {"JalrLinkBeforeBase", "JalrKeepsBit0"}
     [] op \in {"BLT", "BGE", "SLT"} -> {"SignedCmpAsUnsigned"}
     [] op = "SLTI" -> {"SltiMixedSignedness", "SignedCmpAsUnsigned"}
     [] op \in {"SLL", "SRL", "SRA"} -> {"ShiftAmount5Bits"}
     [] op \in {"SLLIW", "SRLIW", "SRAIW"} -> {"ShiftImmWAs64"}
     [] op = "AUIPC" -> {"AuipcNoPc", "AuipcFromNextPc", "UImmZeroExtended"}
     [] op = "LUI" -> {"UImmZeroExtended"}
     [] op = "SRAI" -> {"SraLogical"}
     [] op \in {"LB", "LH", "LW"} -> {"LoadNoSignExt"}
     [] op \in {"SB", "SH", "SW", "SD"} -> {"StoreWide"}
     [] OTHER -> {})

(* first clause on which the effect e (computed from s.pre) disagrees with s.post; "" if none *)
Clause(s, d, e) ==
  LET pre == s.pre  post == s.post
      pm == MemSet(pre.mem)
      stA == IF e.st = <<>> THEN {} ELSE {AddrL(e.st[1], k) : k \in 0..((Len(e.st[2]) \div 8) - 1)}
      stP == IF e.st = <<>> THEN {}
             ELSE {<<AddrL(e.st[1], k), BNat(Slice(e.st[2], 8 * k, 8))>> : k \in 0..((Len(e.st[2]) \div 8) - 1)}
      expM == {p \in pm : p[1] \notin stA} \cup stP
      wr == e.rd # <<>>
  IN IF s.raised # "" THEN "raised"
     ELSE IF post.pc # ToLimbs(e.pc) THEN "pc"
     ELSE IF wr /\ ~e.unk /\ post.x[d.rd + 1] # ToLimbs(e.rd[1]) THEN "rd"
     ELSE IF \E i \in 1..32 : ~(wr /\ i = d.rd + 1) /\ post.x[i] # pre.x[i] THEN "frame"
     ELSE IF MemSet(post.mem) # expM THEN "mem"
     ELSE ""

Subsets2(S) == {{}} \cup {{a} : a \in S} \cup {{a, b} : a \in S, b \in S}
Eval(s, d, Devs) ==
  LET a == Regv(s.pre.x, d.rs1)  b == Regv(s.pre.x, d.rs2)
      m == Loaded(MemSet(s.pre.mem), EA(d, a), LoadSize(d.op))
  IN ExecD(d, a, b, FromLimbs(s.pre.pc, XLEN), m, Devs)

(* result of one step: [k |-> "ok"|"skip"|"undec"|"fail", ...] *)
Judge(s) ==
  LET d == Decode(FromLimbs(s.w, 32)) IN
  IF d.op = "ILLEGAL" \/ d.op \in Traps THEN [k |-> "skip", op |-> d.op]
  ELSE IF s.dec = 0 THEN [k |-> "undec", op |-> d.op]
  ELSE LET e == Eval(s, d, {})
           c == Clause(s, d, e)
       IN IF c = "" THEN [k |-> "ok", op |-> d.op, ld |-> IF LoadSize(d.op) > 0 /\ ~e.unk THEN 1 ELSE 0]
          ELSE LET cands == {S \in Subsets2(DevsFor(d.op)) : S # {} /\ Clause(s, d, Eval(s, d, S)) = ""}
                   best == {S \in cands : \A S2 \in cands : Cardinality(S) <= Cardinality(S2)}
               IN [k |-> "fail", op |-> d.op, clause |-> c, devs |-> best]

Init == /\ tid \in 1..Len(Traces)
        /\ l = 1
        /\ fails = <<>>
        /\ stats = [ok |-> 0, skip |-> 0, undec |-> <<>>, loads |-> 0]
        /\ done = FALSE

Step ==
  /\ ~done /\ l <= Len(T.steps)
  /\ l' = l + 1 /\ UNCHANGED <<tid, done>>
  /\ LET j == Judge(T.steps[l]) IN
     /\ fails' = IF j.k = "fail" THEN Append(fails, [l |-> l, op |-> j.op, clause |-> j.clause, devs |-> j.devs]) ELSE fails
     /\ stats' = CASE j.k = "ok" -> [stats EXCEPT !.ok = @ + 1, !.loads = @ + j.ld]
                   [] j.k = "skip" -> [stats EXCEPT !.skip = @ + 1]
                   [] j.k = "undec" -> [stats EXCEPT !.undec = Append(@, [l |-> l, op |-> j.op])]
                   [] OTHER -> stats

Finish ==
  /\ ~done /\ l > Len(T.steps)
  /\ done' = TRUE
  /\ PrintT(ToJson([t |-> T.t, fails |-> fails, ok |-> stats.ok, skip |-> stats.skip,
                    undec |-> stats.undec, loads |-> stats.loads, lines |-> l - 1]))
  /\ UNCHANGED <<tid, l, fails, stats>>

Next == Step \/ Finish
Spec == Init /\ [][Next]_vars
=============================================================================
