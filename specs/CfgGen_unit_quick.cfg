\* behaviour generator (quick): streams of 3..4 unit-length instructions, every n/c/d placement, every order of <= 4 domain blocks
CONSTANTS
  MinN = 3
  MaxN = 4
  Lens = {1}
  Flags = {"n", "c", "d"}
  MaxIns = 4
  MaxLinks = 0
  MaxRe = 0
  Wide = FALSE
  GenHist = TRUE
  Dev = {}
INIT Init
NEXT Next
CONSTRAINT Emit
CHECK_DEADLOCK FALSE
