\* M: the chain as read from system/core.py (no seeded fault), abstract inputs
CONSTANTS
  Dev = {}
  Mode = "mc"
SPECIFICATION Spec
INVARIANT InvTotal
INVARIANT InvOwnErrorsOnly
INVARIANT InvNoMisclaim
INVARIANT InvCursorReset
INVARIANT InvShape
PROPERTY Terminates
CHECK_DEADLOCK FALSE
