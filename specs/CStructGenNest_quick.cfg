\* M+G (quick, 1 case in 8 of the exhaustive enumeration - residue class chosen by the seed, nested): <= 2 members, each a byte, a pointer or a nested struct / packed struct / union of <= 2 such members, alone or as an array of 2; pointer size 32 (where the layout differs from the host)
CONSTANTS
  RawT = {"B", "P"}
  ArrN = {}
  NestN = {2}
  Ords = {""}
  DefOrds = {""}
  DefKinds = {"struct", "packed", "union"}
  MaxF = 2
  MaxIF = 2
  MinF = 1
  MaxDepth = 1
  Feat = {"nestarr"}
  BitSplits <- BitSplitsNone
  PS = {32}
  VCs = {"pat"}
  Stride = 8
  Dev = {}
  Mode = "gen"
INIT Init
NEXT Next
INVARIANT LayoutOK
INVARIANT SizeOK
INVARIANT RoundTrip
INVARIANT Monotone
CONSTRAINT Emit
CHECK_DEADLOCK FALSE
