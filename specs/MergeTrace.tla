----------------------------- MODULE MergeTrace -----------------------------
(***************************************************************************)
(* C19 - validation of merge() on real amoco maps (harness/c19.py).         *)
(*                                                                          *)
(* TRACE_FILE: NDJSON, one merged pair per line                             *)
(*   [t, raised, at,                                                        *)
(*    regs  = <<[n, w, m1, m2, mm]>>   what each map holds for register n   *)
(*    cells = <<[o, m1, m2, mm, m1a, m2a]>>  ... for the memory byte at p+o; *)
(*             m1a / m2a: what the assume() copy merge() works on holds     *)
(*    ev    = <<[k, raised, regs = <<[n, t]>>, cells = <<[o, t]>>]>>        *)
(*             amoco's own evaluation  c >> mm  on valuation number k       *)
(*    items = <<[loc, mX_has, mX_w, mX, mX_item]>> (X = 1, 2, m)             *)
(*             per item key: has the map an item, how wide, what a read of  *)
(*             the location returns at the width of mm's item (mX), and the *)
(*             item's own value (mX_item)                                   *)
(*    conds = <<c1, c2>>   ci = <<[r, v]>> : branch i assumes r = v         *)
(*    envs  = <<[regs, mlo, mem]>>]    valuations                            *)
(* trees as written by harness/ser.py. AltSet (ExprMods) gives the set of   *)
(* candidates of a tree in a valuation. Clauses (each is the property):     *)
(*   Total      merge does not raise                                        *)
(*   Covers     for every valuation s satisfying branch i's conditions and  *)
(*              every register / memory byte: the candidates of mi are      *)
(*              candidates of mm, or mm is unknown there                    *)
(*   EvalCovers the same on what amoco's evaluation of mm on a concrete      *)
(*              state returns (a widened / unknown value must stay unknown; *)
(*              skipped where the reference semantics cannot value mi)      *)
(*   Untouched  a register / byte that both maps leave as it is (the tree   *)
(*              is the location itself) has exactly its initial value in mm *)
(*   Keys       every item key of mm is an item key of m1 or of m2          *)
(*   Listed     for every item key of mi: mm has that key, and mm's value   *)
(*              is unknown or ONE of its alternatives means what mi holds   *)
(*              there (the item's value, or what a read of the location     *)
(*              returns - they differ when a later item of mi overlaps it), *)
(*              in every valuation satisfying branch i's conditions (the    *)
(*              syntactic clause, up to meaning)                            *)
(* Every failing cell / item of a case is attributed to a listed quirk of   *)
(* amoco, or the case is unexplained (quirks = {}):                         *)
(*   SkipWiderSecond  iff both maps have an item for one memory key, m1's   *)
(*     narrower than m2's, and every failing byte lies in the part m2's     *)
(*     item exceeds m1's (SkipWiderSecondVec when the key is a vector-      *)
(*     valued pointer: merge()'s vector branch, not covered by the repair); *)
(*   TopReadAsBottom  iff every failing cell is a memory byte that mm reads *)
(*     back as the untouched location itself although an item of mm covers  *)
(*     it with an unknown (top / vecw) value (_Mem_read takes an unknown    *)
(*     part of a zone object for an unwritten one);                         *)
(*   StaleItems  iff the failing byte lies in two different items of the    *)
(*     branch's own map, or in an item whose recorded value is not what a   *)
(*     read of the location returns (merge joins the recorded value of an   *)
(*     item although a later store overwrote it);                           *)
(*   VecKeyRewriteOrder  as StaleItems, when one of the overlapping items   *)
(*     is a vector-valued pointer key: re-writing such a key keeps its old  *)
(*     position in the item list, so the copy merge() works on (assume ->   *)
(*     eval replays the items in list order) no longer holds what the map   *)
(*     held;                                                                *)
(*   VecMapCopyDiffers  iff the branch stores through a vector-valued       *)
(*     pointer and the assume() copy of its map - what merge() actually     *)
(*     joins - does not hold at the failing byte what the map holds         *)
(*     (items deleted / not moved by such stores are replayed wrongly);     *)
(*   VecStoreDropsItem  iff the failing byte is written in the branch's     *)
(*     memory but no item of the branch's map covers it, and the branch     *)
(*     stores through a vector-valued pointer (_Mem_write deletes the items *)
(*     of the locations such a store may write; merge() only walks items);  *)
(*   TopPointerKey  under a complexity threshold a vector-valued pointer    *)
(*     key of mi has become top in mm: the failing cell reads back as the   *)
(*     untouched location (the store is kept under an unknown location).    *)
(***************************************************************************)
EXTENDS ExprMods, Json, IOUtils

Traces == ndJsonDeserialize(IOEnv.TRACE_FILE)

VARIABLES tid, done
vars == <<tid, done>>
T == Traces[tid]

EnvOf(e) == [regs |-> e.regs, mem |-> [a \in e.mlo..(e.mlo + Len(e.mem) - 1) |-> e.mem[a - e.mlo + 1]]]
Sat(env, cs) == \A i \in 1..Len(cs) : env.regs[cs[i].r] = cs[i].v
Bad(t) == t.k \in {"raised", "deep", "unk", "missing"}

SubAlts(A, B) == Unknown \in B \/ A \subseteq B            \* A's candidates are B's, or B is unknown

(* the tree is the location itself *)
IsSelfReg(t, n) == t.k = "reg" /\ t.n = n
IsSelfMem(t, o) == t.k = "mem" /\ t.mods = <<>> /\ t.a.k = "ptr" /\ t.a.base.k = "reg" /\ t.a.base.n = "p" /\ t.a.disp = o

(* failing cells: <<kind, index in T.regs / T.cells, branch, env index>> *)
FailRegs(envs) ==
  {x \in {"r"} \X (1..Len(T.regs)) \X {1, 2} \X (1..Len(envs)) :
     LET e == T.regs[x[2]] mi == IF x[3] = 1 THEN e.m1 ELSE e.m2 env == envs[x[4]] IN
     Sat(env, T.conds[x[3]]) /\ (Bad(e.mm) \/ Bad(mi) \/ ~SubAlts(AltSet(mi, env), AltSet(e.mm, env)))}
FailCells(envs) ==
  {x \in {"m"} \X (1..Len(T.cells)) \X {1, 2} \X (1..Len(envs)) :
     LET e == T.cells[x[2]] mi == IF x[3] = 1 THEN e.m1 ELSE e.m2 env == envs[x[4]] IN
     Sat(env, T.conds[x[3]]) /\ (Bad(e.mm) \/ Bad(mi) \/ ~SubAlts(AltSet(mi, env), AltSet(e.mm, env)))}
(* amoco's own evaluation of mm on a concrete state: <<kind, index, branch, index in T.ev>> *)
FailEvRegs(envs) ==
  {x \in {"er"} \X (1..Len(T.regs)) \X {1, 2} \X (1..Len(T.ev)) :
     LET ev == T.ev[x[4]] e == T.regs[x[2]] mi == IF x[3] = 1 THEN e.m1 ELSE e.m2 IN
     ev.raised = "" /\ Sat(envs[ev.k], T.conds[x[3]]) /\ ~Bad(mi) /\ Unknown \notin AltSet(mi, envs[ev.k])
       /\ (Bad(ev.regs[x[2]].t) \/ ~SubAlts(AltSet(mi, envs[ev.k]), AltSet(ev.regs[x[2]].t, envs[ev.k])))}
FailEvCells(envs) ==
  {x \in {"em"} \X (1..Len(T.cells)) \X {1, 2} \X (1..Len(T.ev)) :
     LET ev == T.ev[x[4]] e == T.cells[x[2]] mi == IF x[3] = 1 THEN e.m1 ELSE e.m2 IN
     ev.raised = "" /\ Sat(envs[ev.k], T.conds[x[3]]) /\ ~Bad(mi) /\ Unknown \notin AltSet(mi, envs[ev.k])
       /\ (Bad(ev.cells[x[2]].t) \/ ~SubAlts(AltSet(mi, envs[ev.k]), AltSet(ev.cells[x[2]].t, envs[ev.k])))}
FailUntouched(envs) ==
  {x \in {"r"} \X (1..Len(T.regs)) \X {0} \X (1..Len(envs)) :
     LET e == T.regs[x[2]] env == envs[x[4]] IN
     IsSelfReg(e.m1, e.n) /\ IsSelfReg(e.m2, e.n) /\ AltSet(e.mm, env) # {env.regs[e.n]}}
  \cup
  {x \in {"m"} \X (1..Len(T.cells)) \X {0} \X (1..Len(envs)) :
     LET e == T.cells[x[2]] env == envs[x[4]] IN
     IsSelfMem(e.m1, e.o) /\ IsSelfMem(e.m2, e.o)
       /\ AltSet(e.mm, env) # {ByteBits(env.mem[AddrNat(env.regs["p"]) + e.o], 0)}}

(* offsets (relative to p) a pointer key may denote: p+disp, or every alternative of a vector-valued base *)
AltOff(b) == IF b.k = "reg" /\ b.n = "p" THEN {0}
             ELSE IF b.k = "op" /\ b.s = "+" /\ b.l.k = "reg" /\ b.l.n = "p" /\ b.r.k = "cst" /\ AddrNat(b.r.v) >= 0 THEN {AddrNat(b.r.v)}
             ELSE {}
KeyOffs(loc) == IF loc.base.k = "vec" THEN {x + loc.disp : x \in UNION {AltOff(loc.base.l[i]) : i \in 1..Len(loc.base.l)}}
                ELSE {x + loc.disp : x \in AltOff(loc.base)}
MmCovers(o) == \E j \in 1..Len(T.items) :
                 LET jt == T.items[j] IN
                 jt.mm_has = 1 /\ jt.loc.k = "ptr" /\ \E d \in KeyOffs(jt.loc) : d <= o /\ o < d + jt.mm_w \div 8

(* item level *)
Alternatives(t) == IF t.k = "vec" THEN {t.l[i] : i \in 1..Len(t.l)} ELSE {t}
UnknownTree(t) == t.k \in {"top"}
ListedOK(it, i, envs) ==
  LET vr == IF i = 1 THEN it.m1 ELSE it.m2
      vo == IF i = 1 THEN it.m1_item ELSE it.m2_item
      has == IF i = 1 THEN it.m1_has ELSE it.m2_has
      es == {k \in 1..Len(envs) : Sat(envs[k], T.conds[i])}
      Means(a, vi) == a.w = vi.w /\ \A k \in es : LET x == EvalM(a, envs[k]) y == EvalM(vi, envs[k]) IN IsU(y) \/ x = y
      locbytes == UNION {d..(d + (IF i = 1 THEN it.m1_w ELSE it.m2_w) \div 8 - 1) : d \in KeyOffs(it.loc)}
  IN has = 0 \/ (it.loc.k # "reg" /\ it.loc.base.k \in {"vec", "top"})    \* vector-valued keys: covered by Covers only
     \/ (it.mm_has = 1 /\
         (UnknownTree(it.mm_item)
          \/ \E a \in Alternatives(it.mm_item) : Means(a, vr) \/ Means(a, vo)))
     \* the key was replaced in mm by a later item that overlaps the location (a store through a vector-valued
     \* pointer deletes the items of the locations it may write): what mm holds there is judged by Covers
     \/ (it.mm_has = 0 /\ it.loc.k = "ptr" /\ \E o \in locbytes : MmCovers(o))
FailListed(envs) == {x \in {"i"} \X (1..Len(T.items)) \X {1, 2} \X {0} : ~ListedOK(T.items[x[2]], x[3], envs)}
FailKeys == {x \in {"k"} \X (1..Len(T.items)) \X {0} \X {0} :
               T.items[x[2]].mm_has = 1 /\ T.items[x[2]].m1_has = 0 /\ T.items[x[2]].m2_has = 0}

(* the listed quirk: one memory key in both maps, m1's item narrower; the bytes m2's item exceeds m1's *)
WiderSecond == {j \in 1..Len(T.items) : T.items[j].loc.k = "ptr" /\ T.items[j].m1_has = 1
                                        /\ T.items[j].m2_has = 1 /\ T.items[j].m1_w < T.items[j].m2_w}
LostOf(J) == UNION {LET it == T.items[j] IN
                    UNION {(d + it.m1_w \div 8)..(d + it.m2_w \div 8 - 1) : d \in KeyOffs(it.loc)} : j \in J}
WiderVec   == {j \in WiderSecond : T.items[j].loc.base.k = "vec"}       \* the key is a vector-valued pointer
LostPlain  == LostOf(WiderSecond \ WiderVec)
LostVec    == LostOf(WiderVec)
(* byte b (0-based) of the value tree t is unknown: top / vecw, or the comp part covering it is *)
RECURSIVE TopAt(_, _)
TopAt(t, b) ==
  IF t.k = "top" THEN TRUE
  ELSE IF t.k = "comp" THEN \E i \in 1..Len(t.parts) :
                              t.parts[i].pos <= 8 * b /\ 8 * b < t.parts[i].pos + t.parts[i].t.w
                              /\ TopAt(t.parts[i].t, (8 * b - t.parts[i].pos) \div 8)
  ELSE FALSE
UnderTopItem(o) == \E j \in 1..Len(T.items) :
                     LET it == T.items[j] IN
                     it.mm_has = 1 /\ it.loc.k = "ptr"
                     /\ \E d \in KeyOffs(it.loc) : d <= o /\ o < d + it.mm_w \div 8 /\ TopAt(it.mm_item, o - d)
(* a vector-valued pointer key collapsed to top under the complexity threshold: the store is kept *)
(* under an unknown location and the bytes it wrote in mi are not covered                       *)
TopKey == \E j \in 1..Len(T.items) : T.items[j].mm_has = 1 /\ T.items[j].loc.k = "ptr" /\ T.items[j].loc.base.k = "top"
(* the byte p+o lies in two different items of branch i's map: the recorded value of the earlier *)
(* one is stale there                                                                         *)
StaleAt(i, o) ==
  \E j \in 1..Len(T.items) :
     LET it == T.items[j] has == IF i = 1 THEN it.m1_has ELSE it.m2_has w == IF i = 1 THEN it.m1_w ELSE it.m2_w
         own == IF i = 1 THEN it.m1_item ELSE it.m2_item rd == IF i = 1 THEN it.m1 ELSE it.m2 IN
     has = 1 /\ it.loc.k = "ptr" /\ (\E d \in KeyOffs(it.loc) : d <= o /\ o < d + w \div 8) /\ own.w = rd.w /\ own # rd
CoveredTwice(i, o) ==
  Cardinality({j \in 1..Len(T.items) :
                 LET it == T.items[j] has == IF i = 1 THEN it.m1_has ELSE it.m2_has w == IF i = 1 THEN it.m1_w ELSE it.m2_w IN
                 has = 1 /\ it.loc.k = "ptr" /\ \E d \in KeyOffs(it.loc) : d <= o /\ o < d + w \div 8}) >= 2
(* the byte p+o is written in branch i's memory but no item of branch i's map covers it: a store *)
(* through a vector-valued pointer deleted the (wider) item of a location it may write          *)
Itemless(i, o) ==
  /\ \E j \in 1..Len(T.items) : (IF i = 1 THEN T.items[j].m1_has ELSE T.items[j].m2_has) = 1
                                  /\ T.items[j].loc.k = "ptr" /\ T.items[j].loc.base.k = "vec"
  /\ ~\E j \in 1..Len(T.items) :
        LET it == T.items[j] has == IF i = 1 THEN it.m1_has ELSE it.m2_has w == IF i = 1 THEN it.m1_w ELSE it.m2_w IN
        has = 1 /\ it.loc.k = "ptr" /\ \E d \in KeyOffs(it.loc) : d <= o /\ o < d + w \div 8
CoveredByVec(i, o) ==
  \E j \in 1..Len(T.items) :
     LET it == T.items[j] has == IF i = 1 THEN it.m1_has ELSE it.m2_has w == IF i = 1 THEN it.m1_w ELSE it.m2_w IN
     has = 1 /\ it.loc.k = "ptr" /\ it.loc.base.k = "vec" /\ \E d \in KeyOffs(it.loc) : d <= o /\ o < d + w \div 8
HasVecKey(i) == \E j \in 1..Len(T.items) : (IF i = 1 THEN T.items[j].m1_has ELSE T.items[j].m2_has) = 1
                                             /\ T.items[j].loc.k = "ptr" /\ T.items[j].loc.base.k = "vec"
(* the assume() copy of branch i's map, which merge() works on, does not hold at cell j what the map holds *)
CopyDiffers(i, j, envs) ==
  LET c == T.cells[j] mi == IF i = 1 THEN c.m1 ELSE c.m2 ma == IF i = 1 THEN c.m1a ELSE c.m2a IN
  ~Bad(ma) /\ \E k \in 1..Len(envs) : Sat(envs[k], T.conds[i]) /\ AltSet(ma, envs[k]) # AltSet(mi, envs[k])
CellClass(x, envs) ==
  IF x[1] = "m" /\ IsSelfMem(T.cells[x[2]].mm, T.cells[x[2]].o) /\ UnderTopItem(T.cells[x[2]].o) THEN "TopReadAsBottom"
  ELSE IF x[1] = "m" /\ IsSelfMem(T.cells[x[2]].mm, T.cells[x[2]].o) /\ TopKey /\ T.thr > 0 THEN "TopPointerKey"
  ELSE IF x[1] = "m" /\ x[3] = 2 /\ T.cells[x[2]].o \in LostPlain THEN "SkipWiderSecond"
  ELSE IF x[1] = "m" /\ x[3] = 2 /\ T.cells[x[2]].o \in LostVec THEN "SkipWiderSecondVec"
  ELSE IF x[1] = "m" /\ x[3] \in {1, 2} /\ HasVecKey(x[3]) /\ CopyDiffers(x[3], x[2], envs) THEN "VecMapCopyDiffers"
  ELSE IF x[1] = "m" /\ x[3] \in {1, 2} /\ (CoveredTwice(x[3], T.cells[x[2]].o) \/ StaleAt(x[3], T.cells[x[2]].o))
       THEN (IF CoveredByVec(x[3], T.cells[x[2]].o) THEN "VecKeyRewriteOrder"
             ELSE IF HasVecKey(x[3]) /\ ~CoveredTwice(x[3], T.cells[x[2]].o) THEN "VecStoreDropsItem"
             ELSE "StaleItems")
  ELSE IF x[1] = "m" /\ x[3] \in {1, 2} /\ Itemless(x[3], T.cells[x[2]].o) THEN "VecStoreDropsItem"
  ELSE IF x[1] = "i" /\ x[2] \in WiderSecond /\ x[3] = 2 THEN (IF x[2] \in WiderVec THEN "SkipWiderSecondVec" ELSE "SkipWiderSecond")
  ELSE IF x[1] = "k" /\ T.items[x[2]].loc.k = "ptr" /\ T.items[x[2]].loc.base.k = "top" /\ T.thr > 0 THEN "TopPointerKey"
  ELSE ""
(* a failure of amoco's evaluation c >> mm at a memory byte: the class of the byte, else - when mm itself *)
(* stores through a vector-valued pointer - the unfaithful replay of such a map's items by rcompose       *)
MmHasVecKey == \E j \in 1..Len(T.items) : T.items[j].mm_has = 1 /\ T.items[j].loc.k = "ptr" /\ T.items[j].loc.base.k = "vec"
EvClass(x, envs) ==
  IF x[1] = "em"
  THEN LET c == CellClass(<<"m", x[2], x[3], 0>>, envs) IN
       IF c # "" THEN c ELSE IF MmHasVecKey THEN "VecMapCopyDiffers" ELSE ""
  ELSE IF x[1] = "er" THEN "" ELSE CellClass(x, envs)
Attribute(fc, fu, fl, fk, envs) ==
  LET cs == {EvClass(x, envs) : x \in fc \cup fl \cup fk} IN
  IF fu # {} \/ "" \in cs THEN {} ELSE cs

Verdict ==
  IF T.raised # "" THEN [t |-> T.t, v |-> "fail", clause |-> "Total", what |-> <<>>, quirks |-> {}, nsat |-> 0]
  ELSE
    LET envs == [k \in 1..Len(T.envs) |-> EnvOf(T.envs[k])]
        fc == FailRegs(envs) \cup FailCells(envs)
        fe == FailEvRegs(envs) \cup FailEvCells(envs)
        fu == FailUntouched(envs)
        fl == FailListed(envs)
        fk == FailKeys
        nsat == Cardinality({<<i, k>> \in {1, 2} \X (1..Len(envs)) : Sat(envs[k], T.conds[i])})
    IN IF fc = {} /\ fe = {} /\ fu = {} /\ fl = {} /\ fk = {} THEN [t |-> T.t, v |-> "ok", clause |-> "", what |-> <<>>, quirks |-> {}, nsat |-> nsat]
       ELSE [t |-> T.t, v |-> "fail",
             clause |-> IF fc # {} THEN "Covers" ELSE IF fe # {} THEN "EvalCovers" ELSE IF fu # {} THEN "Untouched"
                        ELSE IF fk # {} THEN "Keys" ELSE "Listed",
             what |-> CHOOSE x \in (IF fc # {} THEN fc ELSE IF fe # {} THEN fe ELSE IF fu # {} THEN fu ELSE IF fk # {} THEN fk ELSE fl) : TRUE,
             quirks |-> Attribute(fc \cup fe, fu, fl, fk, envs), nsat |-> nsat]

Init == tid \in 1..Len(Traces) /\ done = FALSE
Next == /\ ~done /\ done' = TRUE /\ UNCHANGED tid
        /\ PrintT(ToJson(Verdict))
Spec == Init /\ [][Next]_vars
=============================================================================
