\* C15 G (ELF loader): random images with up to 3 segments (-simulate)
CONSTANTS
  Dev = ""
  Classes = {32, 64}
  Seeds <- SeedRange
  PageSizes = {16, 64, 4096}
  MaxSeg = 3
  Relations = {"apart", "adjacent", "samepage"}
  Tails = {"none", "inpage", "beyond"}
INIT Init
NEXT Next
CONSTRAINT Emit
CHECK_DEADLOCK FALSE
