\* C14/C15 G (PE): random header sets (-simulate): 0..4 sections, 0/2/10/16 data directories, alignments 16/64/512
CONSTANTS
  Dev = ""
  Pluses = {TRUE, FALSE}
  Seeds <- SeedRange
  MaxSec = 4
  DirCounts = {0, 2, 10, 16}
  OptPads = {0, 8}
  Aligns = {16, 64, 512}
  RawKinds = {"pad", "eq", "short", "none"}
INIT Init
NEXT Next
CONSTRAINT Emit
CHECK_DEADLOCK FALSE
