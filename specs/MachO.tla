--------------------------------- MODULE MachO ---------------------------------
(***************************************************************************)
(* The Mach-O object format (little-endian, thin) at the level of C14/C15  *)
(* (<mach-o/loader.h>, <mach-o/nlist.h>): mach_header / mach_header_64,    *)
(* the load-command list (cmd, cmdsize), LC_SEGMENT / LC_SEGMENT_64 with   *)
(* their section headers, LC_MAIN, LC_UNIXTHREAD (x86 / x86-64 thread      *)
(* state), LC_SYMTAB with nlist / nlist_64 entries and their names.        *)
(*   Report(b), Encode(A), the address queries, Image(b), Entry.           *)
(***************************************************************************)
EXTENDS Integers, Sequences, FiniteSets, TLC, Bytes

CONSTANT Dev

MH_MAGIC == <<206, 250, 237, 254>>       \* 0xFEEDFACE as stored (little-endian)
MH_MAGIC_64 == <<207, 250, 237, 254>>    \* 0xFEEDFACF
LC_SEGMENT == 1   LC_SYMTAB == 2   LC_UNIXTHREAD == 5   LC_SEGMENT_64 == 25
LC_MAIN == <<40, 0, 0, 128>>             \* 0x80000028 (LC_REQ_DYLD | 0x28) as digits

HdrL(is64) == << F("magic", 4), F("cputype", 4), F("cpusubtype", 4), F("filetype", 4), F("ncmds", 4),
                 F("sizeofcmds", 4), F("flags", 4) >> \o (IF is64 THEN << F("reserved", 4) >> ELSE <<>>)
AWm(is64) == IF is64 THEN 8 ELSE 4
SegL(is64) == << F("cmd", 4), F("cmdsize", 4), F("segname", 16), F("vmaddr", AWm(is64)), F("vmsize", AWm(is64)),
                 F("fileoff", AWm(is64)), F("filesize", AWm(is64)), F("maxprot", 4), F("initprot", 4), F("nsects", 4),
                 F("flags", 4) >>
SectL(is64) == << F("sectname", 16), F("segname", 16), F("addr", AWm(is64)), F("size", AWm(is64)), F("offset", 4),
                  F("align", 4), F("reloff", 4), F("nreloc", 4), F("flags", 4), F("reserved1", 4), F("reserved2", 4) >>
                \o (IF is64 THEN << F("reserved3", 4) >> ELSE <<>>)
MainL == << F("cmd", 4), F("cmdsize", 4), F("entryoff", 8), F("stacksize", 8) >>
SymtabL == << F("cmd", 4), F("cmdsize", 4), F("symoff", 4), F("nsyms", 4), F("stroff", 4), F("strsize", 4) >>
ThreadL == << F("cmd", 4), F("cmdsize", 4), F("flavor", 4), F("count", 4) >>
NlistL(is64) == << F("n_strx", 4), F("n_type", 1), F("n_sect", 1), F("n_desc", 2), F("n_value", AWm(is64)) >>
\* offset of the program counter in the thread state that follows flavor/count: x86_THREAD_STATE64 (flavor 4): rip is
\* the 17th of 21 8-byte registers; x86_THREAD_STATE32 (flavor 1): eip is the 11th of 16 4-byte registers
PcOffset(flavor) == IF flavor = 4 THEN 16 * 8 ELSE 10 * 4
PcWidth(flavor)  == IF flavor = 4 THEN 8 ELSE 4

(* ---- Decode -----------------------------------------------------------------*)
Cap(b, d) == IF FitsNat(d) /\ ToNat(d) <= Len(b) THEN ToNat(d) ELSE Len(b)
IsMachO(b) == Len(b) >= 28 /\ SliceZ(b, 0, 4) \in {MH_MAGIC, MH_MAGIC_64}
Is64(b) == SliceZ(b, 0, 4) = MH_MAGIC_64
HdrOf(b) == Unpack(HdrL(Is64(b)), b, 0, "LE")
CmdKind(c) == IF c = LC_MAIN THEN "main"
              ELSE IF ~FitsNat(c) THEN "other"
              ELSE CASE ToNat(c) = LC_SEGMENT -> "seg32" [] ToNat(c) = LC_SEGMENT_64 -> "seg64" [] ToNat(c) = LC_SYMTAB -> "symtab"
                     [] ToNat(c) = LC_UNIXTHREAD -> "thread" [] OTHER -> "other"
CmdAt(b, o) ==
  LET c == GetZ(b, o, 4, "LE")  sz == GetZ(b, o + 4, 4, "LE")  kind == CmdKind(c) IN
  CASE kind \in {"seg32", "seg64"} ->
         LET is64 == kind = "seg64"  s == Unpack(SegL(is64), b, o, "LE")
             ns == IF FitsNat(s.nsects) /\ ToNat(s.nsects) < 256 THEN ToNat(s.nsects) ELSE 0
             so == o + SizeOf(SegL(is64))
             sectsz == IF Dev = "Sect64As32" THEN SizeOf(SectL(FALSE)) ELSE SizeOf(SectL(is64))
         IN [kind |-> kind, cmd |-> c, cmdsize |-> sz, f |-> s,
             sects |-> Tup([k \in 1..ns |-> Unpack(SectL(is64), b, so + sectsz * (k - 1), "LE")])]
    [] kind = "main"   -> [kind |-> kind, cmd |-> c, cmdsize |-> sz, f |-> Unpack(MainL, b, o, "LE"), sects |-> <<>>]
    [] kind = "symtab" -> [kind |-> kind, cmd |-> c, cmdsize |-> sz, f |-> Unpack(SymtabL, b, o, "LE"), sects |-> <<>>]
    [] kind = "thread" -> LET t == Unpack(ThreadL, b, o, "LE")  fl == IF FitsNat(t.flavor) THEN ToNat(t.flavor) ELSE 0 IN
                          [kind |-> kind, cmd |-> c, cmdsize |-> sz,
                           f |-> t @@ ("pc" :> Widen(GetZ(b, o + 16 + PcOffset(fl), PcWidth(fl), "LE"), 8)), sects |-> <<>>]
    [] OTHER -> [kind |-> "other", cmd |-> c, cmdsize |-> sz, f |-> <<>>, sects |-> <<>>]
RECURSIVE CmdsFrom(_, _, _, _)
CmdsFrom(b, o, k, n) ==
  IF k > n \/ o + 8 > Len(b) THEN <<>>
  ELSE LET c == CmdAt(b, o)  sz == IF FitsNat(c.cmdsize) THEN ToNat(c.cmdsize) ELSE 0 IN
       IF sz < 8 THEN <<c>> ELSE <<c>> \o CmdsFrom(b, o + sz, k + 1, n)
CmdsOf(b) == LET h == HdrOf(b) IN CmdsFrom(b, SizeOf(HdrL(Is64(b))), 1, IF FitsNat(h.ncmds) /\ ToNat(h.ncmds) < 4096 THEN ToNat(h.ncmds) ELSE 0)

IsSeg(c) == c.kind \in {"seg32", "seg64"}
\* base address of the image: the segment that maps file offset 0 (the one holding the header)
BaseOf(C) == LET S == {k \in DOMAIN C : IsSeg(C[k]) /\ IsZeroD(C[k].f.fileoff) /\ ~IsZeroD(C[k].f.filesize)} IN
             IF S = {} THEN <<0, 0, 0, 0, 0, 0, 0, 0>> ELSE Widen(C[CHOOSE k \in S : \A j \in S : k >= j].f.vmaddr, 8)
\* entry: LC_MAIN (base + entryoff) or the program counter of LC_UNIXTHREAD
EntryOf(C) == LET M == {k \in DOMAIN C : C[k].kind = "main"}  T == {k \in DOMAIN C : C[k].kind = "thread"} IN
  IF M # {} THEN AddD(BaseOf(C), C[CHOOSE k \in M : \A j \in M : k <= j].f.entryoff)
  ELSE IF T # {} THEN C[CHOOSE k \in T : \A j \in T : k <= j].f.pc
  ELSE <<>>
SymsOf(b, C) == LET S == {k \in DOMAIN C : C[k].kind = "symtab"} IN
  IF S = {} THEN <<>>
  ELSE LET st == C[CHOOSE k \in S : TRUE].f   is64 == Is64(b)
           n  == IF FitsNat(st.nsyms) /\ ToNat(st.nsyms) < 65536 THEN ToNat(st.nsyms) ELSE 0
           so == Cap(b, st.symoff)  ss == Cap(b, st.stroff)  sz == Cap(b, st.strsize)
       IN Tup([k \in 1..n |-> LET y == Unpack(NlistL(is64), b, so + SizeOf(NlistL(is64)) * (k - 1), "LE") IN
                 y @@ ("name" :> IF FitsNat(y.n_strx) /\ ToNat(y.n_strx) < sz THEN CStr(b, ss + ToNat(y.n_strx), Min2(ss + sz, Len(b))) ELSE <<>>)])
Report(b) == LET C == CmdsOf(b) IN
  [is64 |-> Is64(b), hdr |-> HdrOf(b), cmds |-> C, base |-> BaseOf(C), entry |-> EntryOf(C), syms |-> SymsOf(b, C)]

(* ---- queries ------------------------------------------------------------------*)
SegsAt(R, a) == {k \in DOMAIN R.cmds : IsSeg(R.cmds[k]) /\ InD(a, R.cmds[k].f.vmaddr, R.cmds[k].f.vmsize)}
SectsAt(R, k, a) == {j \in DOMAIN R.cmds[k].sects : InD(a, R.cmds[k].sects[j].addr, R.cmds[k].sects[j].size)}
Query(R, a) ==
  LET S == SegsAt(R, a) IN
  IF S = {} THEN [a |-> a, seg |-> -1, sect |-> -1, fo |-> <<>>, off |-> <<>>]
  ELSE LET k == CHOOSE k \in S : \A j \in S : k <= j   T == SectsAt(R, k, a)   sg == R.cmds[k].f IN
       IF T = {} THEN [a |-> a, seg |-> k - 1, sect |-> -1, off |-> SubD(a, sg.vmaddr),
                       fo |-> IF InD(a, sg.vmaddr, sg.filesize) THEN AddD(Widen(sg.fileoff, 8), SubD(a, sg.vmaddr)) ELSE <<>>]
       ELSE LET j == CHOOSE j \in T : \A i \in T : j <= i  sc == R.cmds[k].sects[j] IN
            [a |-> a, seg |-> k - 1, sect |-> j - 1, off |-> SubD(a, sc.addr),
             fo |-> IF IsZeroD(sc.offset) THEN <<>> ELSE AddD(Widen(sc.offset, 8), SubD(a, sc.addr))]

(* ---- memory image (C15): every segment that is mapped (some protection or some file content) ----------------*)
Loadable(c) == IsSeg(c) /\ ~(IsZeroD(c.f.filesize) /\ IsZeroD(c.f.initprot))        \* not __PAGEZERO-like
SegMem(b, s) == LET off == Cap(b, s.fileoff)  fs == Cap(b, s.filesize)  vs == IF FitsNat(s.vmsize) THEN ToNat(s.vmsize) ELSE 0
                IN Tup([i \in 1..vs |-> IF i <= fs /\ off + i <= Len(b) THEN b[off + i] ELSE 0])
Image(b) == LET C == CmdsOf(b)  L == SetToSeq({k \in DOMAIN C : Loadable(C[k])}) IN
  Tup([j \in 1..Len(L) |-> [k |-> L[j] - 1, va |-> Widen(C[L[j]].f.vmaddr, 8),
                            fs |-> Min2(Cap(b, C[L[j]].f.filesize), Len(SegMem(b, C[L[j]].f))), mem |-> SegMem(b, C[L[j]].f)]])
AtAddr(b, a, n) ==
  LET I == Image(b)  S == {k \in DOMAIN I : InD(a, I[k].va, Digits(Len(I[k].mem), 8))} IN
  IF S = {} THEN <<>> ELSE LET k == CHOOSE k \in S : TRUE  o == ToNat(SubD(a, I[k].va))
                           IN SubSeq(I[k].mem, o + 1, Min2(Len(I[k].mem), o + n))
FileBackedFrom(b, a) ==
  LET I == Image(b)  S == {k \in DOMAIN I : InD(a, I[k].va, Digits(I[k].fs, 8))} IN
  IF S = {} THEN 0 ELSE LET k == CHOOSE k \in S : TRUE IN I[k].fs - ToNat(SubD(a, I[k].va))

(* ---- Encode --------------------------------------------------------------------*)
(* A = [is64, hdr (record of HdrL without ncmds/sizeofcmds), cmds: Seq of                                     *)
(*        [kind "seg", f (SegL record), sects (Seq of SectL records), data (bytes at f.fileoff)]               *)
(*      | [kind "main", f] | [kind "thread", flavor, pc] | [kind "symtab", syms: Seq([name, n_type, n_sect,   *)
(*        n_desc, n_value]), symoff, stroff] | [kind "other", cmd, body], size, fill]                          *)
RECURSIVE StrIdx(_, _)
StrIdx(names, k) == IF k = 1 THEN 1 ELSE StrIdx(names, k - 1) + Len(names[k - 1]) + 1
StrTabOf(names) == <<0>> \o Flat(Tup([k \in 1..Len(names) |-> names[k] \o <<0>>]))
ThreadBytes(c) == LET n == IF c.flavor = 4 THEN 21 * 8 ELSE 16 * 4 IN
  Pack(ThreadL, [cmd |-> Digits(LC_UNIXTHREAD, 4), cmdsize |-> Digits(16 + n, 4), flavor |-> Digits(c.flavor, 4),
                 count |-> Digits(n \div 4, 4)], "LE")
  \o Tup([i \in 1..n |-> IF i > PcOffset(c.flavor) /\ i <= PcOffset(c.flavor) + PcWidth(c.flavor)
                         THEN c.pc[i - PcOffset(c.flavor)] ELSE (i * 7) % 256])
CmdBytes(A, c) ==
  CASE c.kind = "seg"    -> Pack(SegL(A.is64), c.f, "LE") \o Flat(Tup([j \in 1..Len(c.sects) |-> Pack(SectL(A.is64), c.sects[j], "LE")]))
    [] c.kind = "main"   -> Pack(MainL, c.f, "LE")
    [] c.kind = "thread" -> ThreadBytes(c)
    [] c.kind = "symtab" -> Pack(SymtabL, [cmd |-> Digits(LC_SYMTAB, 4), cmdsize |-> Digits(24, 4), symoff |-> Digits(c.symoff, 4),
                                           nsyms |-> Digits(Len(c.syms), 4), stroff |-> Digits(c.stroff, 4),
                                           strsize |-> Digits(Len(StrTabOf(Tup([k \in 1..Len(c.syms) |-> c.syms[k].name]))), 4)], "LE")
    [] OTHER             -> Put(c.cmd, "LE") \o Digits(8 + Len(c.body), 4) \o c.body
AllCmdBytes(A) == Flat(Tup([k \in 1..Len(A.cmds) |-> CmdBytes(A, A.cmds[k])]))
SymNames(c) == Tup([k \in 1..Len(c.syms) |-> c.syms[k].name])
SymBytes(A, c) == Flat(Tup([k \in 1..Len(c.syms) |->
  Pack(NlistL(A.is64), [n_strx |-> Digits(StrIdx(SymNames(c), k), 4), n_type |-> <<c.syms[k].n_type>>, n_sect |-> <<c.syms[k].n_sect>>,
                        n_desc |-> c.syms[k].n_desc, n_value |-> c.syms[k].n_value], "LE")]))
Chunks(A) ==
  << << 0, Pack(HdrL(A.is64), A.hdr @@ ("ncmds" :> Digits(Len(A.cmds), 4)) @@ ("sizeofcmds" :> Digits(Len(AllCmdBytes(A)), 4)), "LE")
           \o AllCmdBytes(A) >> >>
  \o Flat(Tup([k \in 1..Len(A.cmds) |->
        CASE A.cmds[k].kind = "seg" /\ ~IsZeroD(A.cmds[k].f.fileoff) -> << << ToNat(A.cmds[k].f.fileoff), A.cmds[k].data >> >>
          [] A.cmds[k].kind = "symtab" -> << << A.cmds[k].symoff, SymBytes(A, A.cmds[k]) >>,
                                             << A.cmds[k].stroff, StrTabOf(SymNames(A.cmds[k])) >> >>
          [] OTHER -> <<>>]))
Disjoint(A) == ChunksDisjoint(Chunks(A), A.size)
Encode(A) == LayOut(Chunks(A), A.fill, A.size)
=============================================================================
