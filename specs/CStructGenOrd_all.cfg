\* M+G (thorough, exhaustive, byte orders): packed structures of <= 2
\* members over H, I, s and their counted forms, every combination of the order literal (none, <, >) and the order= keyword
CONSTANTS
  RawT = {"H", "I", "s"}
  ArrN = {}
  NestN = {}
  Ords = {"", "<", ">"}
  DefOrds = {"", ">"}
  DefKinds = {"packed"}
  MaxF = 2
  MaxIF = 0
  MinF = 1
  MaxDepth = 0
  Feat = {"cnt"}
  BitSplits <- BitSplitsNone
  PS = {32}
  VCs = {"pat"}
  Stride = 1
  Dev = {}
  Mode = "gen"
INIT Init
NEXT Next
INVARIANT LayoutOK
INVARIANT SizeOK
INVARIANT RoundTrip
INVARIANT Monotone
CONSTRAINT Emit
CHECK_DEADLOCK FALSE
