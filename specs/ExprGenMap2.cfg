\* exhaustive (thorough): as ExprGenMap with two source registers a, b
CONSTANTS
  Widths = {3}
  MaxSteps = 5
  MaxW = 8
  FreshOnly = FALSE
  Ops = {"mset", "mget"}
  Shape <- ShapeAny
  LeafSet = {}
  AutoSimp = FALSE
  MapSpan = 6
  MapSrc = {1, 2}
  Rand = FALSE
INIT Init
NEXT Next
CHECK_DEADLOCK FALSE
