\* C19 G: EVERY pair of one-operation branches of a tiny model (with the path-condition choices none / x == K),
\* replayed exhaustively in the thorough tier
CONSTANTS
  Regs = {"a"}
  Flags = {"f"}
  RB = 2
  Offsets = {0, 1}
  Sizes = {1, 2}
  Kinds = {1, 2}
  PPs = {}
  MaxPre = 0
  MaxB = 1
  Widen = {FALSE}
  Thr = {FALSE}
  Conds = {0, 1}
  Q = {}
  Gen = TRUE
INIT Init
NEXT Next
CHECK_DEADLOCK FALSE
CONSTRAINT Emit
