CONSTANTS
  B = 4
  MemSize = 8
  PtrVals = {0,1,2}
  DataInit <- DataSmall
  MaxOps = 2
  Dev = "none"
  Gen = FALSE
  NoAls = {TRUE,FALSE}
  Endians = {"le","be"}
  Menu = {"regs","cst","inc","ld1","ld2","addld","ext","bump","slice","store","ldst","delayed"}
INIT Init
NEXT Next
INVARIANT Lockstep
CHECK_DEADLOCK FALSE
