\* C14 self-test: a reader that swaps e_phoff/e_shoff for ELFCLASS64 big-endian must violate RoundTrip
CONSTANTS
  Dev = "Swap64BEOff"
  Classes = {64}
  Orders = {"BE"}
  Seeds = {11}
  MaxPh = 1
  MaxUser = 0
  MaxSym = 0
  Machines = {3}
  Types = {2}
  PTypes = {1}
  Layouts = {1}
  Pads = {0}
  Kinds = {"bits", "nobits"}
  SymChoices = {FALSE}
INIT Init
NEXT Next
INVARIANT RoundTrip
CHECK_DEADLOCK FALSE
