------------------------------- MODULE DecTree -------------------------------
(***************************************************************************)
(* C04 - decoder index = most-constrained-first scan.                      *)
(*                                                                         *)
(* The model grows a spec table one spec at a time (AddSpec); on every     *)
(* table TLC builds the tree with the transcription of disassembler.setup  *)
(* (DecTreeOps!Build) and checks, for both fetch orders and ALL inputs of   *)
(* 0..maxlen+1 units:                                                      *)
(*   Equiv   Lookup(Build(S), w) = Scan(S, w)                              *)
(*   Struct  Routing, PartitionAll, LeafOrderW, LeafOrderStable on Build(S) *)
(* A seeded fault (Dev) must be rejected.  Under Gen the table is printed  *)
(* with a real format string per spec and the expected winner for every    *)
(* input; harness/c04.py builds real ispec objects and a real disassembler  *)
(* from it (G).                                                            *)
(*                                                                         *)
(* Units are U-bit "bytes" (U small keeps the space of ALL tables          *)
(* enumerable); in G a unit is written to the low U bits of a real byte,   *)
(* the other bits are don't-care.                                          *)
(***************************************************************************)
EXTENDS DecTreeOps, TLC, Json

CONSTANTS U,          \* bits per unit
          Sizes,      \* spec sizes in units
          Endians,    \* subset of {1, -1}   (cfg files cannot hold -1: see EBoth / EBig / ELittle)
          LeafMax,    \* 5 in amoco: fewer specs than this are not split
          MaxSpecs,   \* tables of up to this many specs
          HookVals,   \* {TRUE} or {TRUE, FALSE}: specs whose setup function rejects
          MinW,       \* only specs whose mask has at least this many bits (deep trees need heavy masks)
          CallExtra,  \* units by which maxlen is raised after construction (x86: 15 > longest spec), LE only
          AnyN,       \* 0, or: on tables of exactly AnyN specs also quantify over ARBITRARY one-level trees (AnySound)
          Dev,        \* seeded faults
          Gen         \* print behaviours at MaxSpecs

EBoth == {1, -1}
EBig == {-1}
ELittle == {1}

VARIABLES specs, E
vars == <<specs, E>>

MaxLen == CHOOSE n \in Sizes : \A m \in Sizes : n >= m
SpecSpace == UNION {UNION {{WithW([size |-> U * n, mask |-> m, fix |-> f, hk |-> h]) : f \in SUBSET m, h \in HookVals}
                            : m \in {x \in SUBSET (0..(U * n - 1)) : Cardinality(x) >= MinW}} : n \in Sizes}
                \* mask = {} is never registered (ispec_register) -- MinW >= 1

(* disassembler.__init__: maxlen = the longest spec of the table (not of the scope) *)
TabMaxLen == IF specs = <<>> THEN MaxLen
             ELSE LET ns == {specs[i].size \div U : i \in 1..Len(specs)} IN CHOOSE n \in ns : \A m \in ns : n >= m
PBuild == [E |-> E, maxlen |-> TabMaxLen, leafmax |-> LeafMax, U |-> U]
PCall  == [E |-> E, maxlen |-> TabMaxLen + (IF E = 1 THEN CallExtra ELSE 0), leafmax |-> LeafMax, U |-> U]

RECURSIVE SeqsUpTo(_, _)
SeqsUpTo(V, n) == IF n = 0 THEN {<<>>} ELSE LET R == SeqsUpTo(V, n - 1) IN R \cup {Append(r, v) : r \in {x \in R : Len(x) = n - 1}, v \in V}
Words == SeqsUpTo(0..(P2x[U + 1] - 1), MaxLen + 1)

Init == specs = <<>> /\ E \in Endians
AddSpec(s) == Len(specs) < MaxSpecs /\ specs' = Append(specs, s) /\ UNCHANGED E
Next == \E s \in SpecSpace : AddSpec(s)
Spec == Init /\ [][Next]_vars

All == [i \in 1..Len(specs) |-> i]
Tree == Build(specs, All, PBuild, Dev)

EquivOn(T) == LET ord == AllSorted(specs)
                  call == PCall
              IN \A w \in Words : Lookup(specs, T, w, call) = FirstIn(specs, ord, w, call)
StructOn(T) == LET pb == PBuild IN
               /\ Routing(specs, T, pb)
               /\ PartitionAll(specs, T)
               /\ LeafOrderW(specs, T, pb)
               /\ LeafOrderStable(specs, T)
               /\ ListSort(specs, All) = ListSortDef(specs, All)
Equiv  == Len(specs) >= 1 => EquivOn(Tree)
Struct == Len(specs) >= 1 => StructOn(Tree)
(* both at once (the tree is built once per table) *)
Inv == Len(specs) >= 1 => LET T == Tree IN EquivOn(T) /\ StructOn(T)

(* Why checking Routing / Partition / LeafOrder on a REAL tree is meaningful: on every table of AnyN   *)
(* specs, EVERY one-level tree (any test mask f, any assignment of specs to keys, any leaf order) that  *)
(* satisfies the structural clauses answers like the scan - exactly, if its leaves are in stable order; *)
(* up to the choice among equally constrained accepting specs, if only the weight order holds.          *)
Perms(X) == {p \in [1..Cardinality(X) -> X] : \A i, j \in 1..Cardinality(X) : i # j => p[i] # p[j]}
AnyTrees ==
  LET n == Len(specs)
      bits == 0..(TabMaxLen * U - 1)
      TreesFor(f, a) ==
        LET keys == {a[i] : i \in 1..n}
            LeavesFor(x) == {Leaf(p) : p \in Perms({i \in 1..n : a[i] = x})}
        IN {Node(f, kid) : kid \in {k \in [keys -> UNION {LeavesFor(x) : x \in keys}] : \A x \in keys : k[x] \in LeavesFor(x)}}
  IN {Leaf(p) : p \in Perms(1..n)}
     \cup UNION {UNION {TreesFor(f, a) : a \in [1..n -> SUBSET f]} : f \in (SUBSET bits) \ {{}}}
AnySound ==
  (AnyN > 0 /\ Len(specs) = AnyN) =>
    LET pb == PBuild  call == PCall  ord == AllSorted(specs) IN
    \A T \in AnyTrees :
       (Routing(specs, T, pb) /\ PartitionAll(specs, T)) =>
          /\ LeafOrderStable(specs, T) => \A w \in Words : Lookup(specs, T, w, call) = FirstIn(specs, ord, w, call)
          /\ LeafOrderW(specs, T, pb) => \A w \in Words :
                LET a == Lookup(specs, T, w, call)  b == FirstIn(specs, ord, w, call)
                IN (a = 0 <=> b = 0) /\ (a # 0 => Accepts(specs[a], w, call) /\ HW(specs[a]) = HW(specs[b]))

-----------------------------------------------------------------------------
(* G: the table as real format strings, direction '>' (LSB first):          *)
(*    8n>[ b b - - - - - -  ... ]   the U model bits of each unit, then 8-U  *)
(*    don't-care bits                                                        *)
RECURSIVE NumStr(_)
NumStr(n) == IF n < 10 THEN <<48 + n>> ELSE NumStr(n \div 10) \o <<48 + (n % 10)>>
RECURSIVE FlatC(_, _)
FlatC(ss, k) == IF k > Len(ss) THEN <<>> ELSE ss[k] \o FlatC(ss, k + 1)
FmtOf(s) ==
  LET n == s.size \div U
      unit(j) == [t \in 1..8 |-> IF t > U THEN 45
                                ELSE LET p == U * (j - 1) + (t - 1) IN
                                     IF p \in s.mask THEN (IF p \in s.fix THEN 49 ELSE 48) ELSE 45]
  IN NumStr(8 * n) \o <<62, 91>> \o FlatC([j \in 1..n |-> unit(j) \o <<32>>], 1) \o <<93>>

RECURSIVE SetToSeq(_)
SetToSeq(X) == IF X = {} THEN <<>> ELSE LET x == CHOOSE x \in X : TRUE IN <<x>> \o SetToSeq(X \ {x})

Behaviour ==
  [U |-> U, endian |-> E, maxlen |-> TabMaxLen, callmaxlen |-> PCall.maxlen,
   specs |-> [i \in 1..Len(specs) |-> [fmt |-> FmtOf(specs[i]), hk |-> specs[i].hk]],
   leaf |-> Tree.leaf, nleaves |-> Cardinality(LeavesOf(Tree, <<>>)),
   words |-> LET ws == SetToSeq(Words) IN [k \in 1..Len(ws) |-> [w |-> ws[k], win |-> Scan(specs, ws[k], PCall)]]]

EmitC == (Gen /\ Len(specs) = MaxSpecs) => PrintT(ToJson(Behaviour))
=============================================================================
