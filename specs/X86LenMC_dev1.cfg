\* C07 self-test: the seeded fault SibBase5NoDisp must violate an invariant
CONSTANTS
  Dev = "SibBase5NoDisp"
  Modes = {32, 64}
  MaxPfx = 1
  PfxSeqs = {}
  Hist = FALSE
INIT Init
NEXT NextF
INVARIANTS TypeOK LenBound DispRule DispRule3 ImmRule Deterministic
PROPERTY Progress
