-------------------------------- MODULE ElfRef --------------------------------
(***************************************************************************)
(* C14 (ELF), reference binding and sample traces.                         *)
(* TRACE_FILE is NDJSON, one file per line:                                *)
(*   [t |-> id, bytes |-> <<file bytes>>, ref |-> dump]                    *)
(* where dump is what llvm-readobj reports for that file (corpus/readobj), *)
(* every number as digits.  For each line the spec evaluates Report(bytes) *)
(* and prints one total verdict: "ok" iff the reference tool's dump equals *)
(* what Elf.tla says the file encodes (first differing clause otherwise),  *)
(* together with Report(bytes) and the query answers, which the harness    *)
(* then compares with what amoco reports for the same file.                *)
(***************************************************************************)
EXTENDS Elf, Json, IOUtils

Files == ndJsonDeserialize(IOEnv.TRACE_FILE)

VARIABLES tid, done
vars == <<tid, done>>

FieldsOK(L, r, ref) == \A k \in DOMAIN L : EqD(r[L[k].n], ref[L[k].n])
RECURSIVE FirstBadField(_, _, _, _)
FirstBadField(L, r, ref, k) == IF k > Len(L) THEN "" ELSE IF EqD(r[L[k].n], ref[L[k].n]) THEN FirstBadField(L, r, ref, k + 1) ELSE L[k].n

SymTabNamed(R, nm) == {k \in DOMAIN R.symtabs : R.names[R.symtabs[k].sec + 1] = nm}
SymOK(cls, r, nm, ref) == /\ EqD(r.st_value, ref.st_value) /\ EqD(r.st_size, ref.st_size) /\ EqD(r.st_info, ref.st_info)
                          /\ EqD(r.st_other, ref.st_other) /\ EqD(r.st_shndx, ref.st_shndx) /\ EqD(r.st_name, ref.st_name)
                          /\ nm = ref.name
SymTabBad(R, cls, rt) == LET S == SymTabNamed(R, rt.secname) IN      \* "" or the first differing item
  IF S = {} THEN "missing"
  ELSE LET t == R.symtabs[CHOOSE k \in S : TRUE] IN
       IF Len(t.syms) # Len(rt.syms) THEN "count"
       ELSE LET B == {j \in DOMAIN rt.syms : ~SymOK(cls, t.syms[j], t.names[j], rt.syms[j])} IN
            IF B = {} THEN "" ELSE LET j == CHOOSE j \in B : \A i \in B : j <= i IN
               "[" \o ToString(j - 1) \o "]" \o (IF t.names[j] # rt.syms[j].name THEN ".name" ELSE ".field")
SymTabOK(R, cls, rt) == SymTabBad(R, cls, rt) = ""

Verdict(R, cls, ref) ==
  IF R.ident # ref.ident THEN "ident"
  ELSE IF ~FieldsOK(EhdrL(cls), R.eh, ref.eh) THEN "Ehdr." \o FirstBadField(EhdrL(cls), R.eh, ref.eh, 1)
  ELSE IF Len(R.ph) # Len(ref.ph) THEN "Phdr.count"
  ELSE IF \E k \in DOMAIN R.ph : ~FieldsOK(PhdrL(cls), R.ph[k], ref.ph[k])
       THEN LET k == CHOOSE k \in DOMAIN R.ph : ~FieldsOK(PhdrL(cls), R.ph[k], ref.ph[k])
            IN "Phdr[" \o ToString(k - 1) \o "]." \o FirstBadField(PhdrL(cls), R.ph[k], ref.ph[k], 1)
  ELSE IF Len(R.sh) # Len(ref.sh) THEN "Shdr.count"
  ELSE IF \E k \in DOMAIN R.sh : ~FieldsOK(ShdrL(cls), R.sh[k], ref.sh[k])
       THEN LET k == CHOOSE k \in DOMAIN R.sh : ~FieldsOK(ShdrL(cls), R.sh[k], ref.sh[k])
            IN "Shdr[" \o ToString(k - 1) \o "]." \o FirstBadField(ShdrL(cls), R.sh[k], ref.sh[k], 1)
  ELSE IF \E k \in DOMAIN R.sh : R.names[k] # ref.sh[k].name
       THEN "Shdr[" \o ToString((CHOOSE k \in DOMAIN R.sh : R.names[k] # ref.sh[k].name) - 1) \o "].name"
  ELSE IF \E k \in DOMAIN ref.symtabs : ~SymTabOK(R, cls, ref.symtabs[k])
       THEN LET k == CHOOSE k \in DOMAIN ref.symtabs : ~SymTabOK(R, cls, ref.symtabs[k])
            IN "Symbols(" \o ToString(k) \o ")" \o SymTabBad(R, cls, ref.symtabs[k])
  ELSE "ok"

QueryAddrs(R) ==
  {R.entry}
  \cup UNION {LET p == R.ph[k] IN
         { SubD(p.p_vaddr, <<1>>), p.p_vaddr, AddD(p.p_vaddr, SubD(p.p_filesz, <<1>>)), AddD(p.p_vaddr, p.p_filesz),
           AddD(p.p_vaddr, SubD(p.p_memsz, <<1>>)), AddD(p.p_vaddr, p.p_memsz) } : k \in LoadSegs(R)}
  \cup UNION {LET s == R.sh[i] IN
         { s.sh_addr, AddD(s.sh_addr, SubD(s.sh_size, <<1>>)), AddD(s.sh_addr, s.sh_size) }
              : i \in {i \in DOMAIN R.sh : IsAlloc(R.sh[i]) \/ TypeIs(R.sh[i].sh_type, SHT_PROGBITS)}}
RECURSIVE SeqOfSet(_)
SeqOfSet(S) == IF S = {} THEN <<>> ELSE LET m == CHOOSE x \in S : TRUE IN <<m>> \o SeqOfSet(S \ {m})

Init == tid \in 1..Len(Files) /\ done = FALSE
Next == /\ ~done /\ done' = TRUE /\ UNCHANGED tid
        /\ LET f == Files[tid]  b == f.bytes IN
           IF ~HasIdent(b) THEN PrintT(ToJson([t |-> f.t, verdict |-> "NotElf"]))
           ELSE LET R == Report(b)  Q == SeqOfSet(QueryAddrs(R)) IN
                PrintT(ToJson([t |-> f.t, verdict |-> IF f.hasref THEN Verdict(R, ClsOf(b), f.ref) ELSE "noref", cls |-> ClsOf(b), ord |-> OrdOf(b),
                               expect |-> R, queries |-> Tup([k \in 1..Len(Q) |-> Query(R, Q[k])])]))
Spec == Init /\ [][Next]_vars
=============================================================================
