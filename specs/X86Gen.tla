------------------------------ MODULE X86Gen ------------------------------
(***************************************************************************)
(* C06, x86-64 part, spec -> code (G).  Enumerates the abstract forms       *)
(* mnemonic x operand size x operand form (rr rm mr ri mi, one-operand,     *)
(* count forms) x register choice (legacy, REX.R/X/B, AH..BH, SPL..DIL) x   *)
(* addressing mode (base, base+disp8, base+index*scale+disp32, r12/r13      *)
(* special cases, RIP-relative, absolute, 32-bit addressing with prefix 67) *)
(* and, per form, the classes of operand values / flag inputs / memory      *)
(* offsets / shift counts that must be exercised.  One record per form:     *)
(*   [f |-> form, asm |-> X86!AsmText(f) | "" , jb |-> bytes of a Jcc form, *)
(*    vals |-> {<<class of the first operand, class of the second>>},       *)
(*    fls |-> flag-input classes, offs |-> offset classes, cnts |-> counts] *)
(* harness/c06x86.py concretises a class into a pre-state with the seeded   *)
(* rng (inputs only); the bytes of a form come from corpus/x86enc (llvm-mc  *)
(* on `asm').  Expected results are never produced here: X86Trace.tla       *)
(* computes X86!SpecStep on the recorded pre-state.                         *)
(***************************************************************************)
EXTENDS X86, Json

CONSTANTS MnSel,     \* mnemonics to enumerate (subset of X86!Mnemonics)
          Wide       \* TRUE: all addressing modes / registers; FALSE: a reduced set

VARIABLES ph, cur

(* operands all carry the same fields so that they can live in one set *)
Opd(k, n, h, b, x, sc, d, a32, rip, v) ==
  [k |-> k, n |-> n, h |-> h, b |-> b, x |-> x, sc |-> sc, d |-> d, a32 |-> a32, rip |-> rip, v |-> v]
Rg(n) == Opd("r", n, 0, -1, -1, 1, 0, 0, 0, 0)
Rh(n) == Opd("r", n, 1, -1, -1, 1, 0, 0, 0, 0)
Im(v) == Opd("i", 0, 0, -1, -1, 1, 0, 0, 0, v)
No == Opd("n", 0, 0, -1, -1, 1, 0, 0, 0, 0)
Cl == Opd("cl", 1, 0, -1, -1, 1, 0, 0, 0, 0)
Mm(b, x, sc, d, a32, rip) == Opd("m", 0, 0, b, x, sc, d, a32, rip, 0)
Fm(mn, sz, o1, o2, o3) == [mn |-> mn, sz |-> sz, ssz |-> 0, o1 |-> o1, o2 |-> o2, o3 |-> o3, cc |-> 0]

(* addressing modes; their registers (rbx rsi rdi rbp r13 r12 r10 rsp) are never used as data operands *)
AM1 == Mm(3, -1, 1, 0, 0, 0)                 \* [rbx]
AM2 == Mm(6, -1, 1, 8, 0, 0)                 \* [rsi + 8]                      disp8
AM3 == Mm(7, 5, 4, 256, 0, 0)                \* [rdi + 4*rbp + 256]            SIB + disp32
AM4 == Mm(13, -1, 1, 0, 0, 0)                \* [r13]                          needs disp8 = 0
AM5 == Mm(12, 10, 8, -8, 0, 0)               \* [r12 + 8*r10 - 8]              REX.X REX.B, negative disp8
AM6 == Mm(-1, -1, 1, 6160, 0, 1)             \* [rip + 0x1810]  = DATA + 16    RIP-relative
AM7 == Mm(6, -1, 1, 4, 1, 0)                 \* [esi + 4]                      prefix 67
AM8 == Mm(3, 7, 2, -4, 1, 0)                 \* [ebx + 2*edi - 4]              prefix 67 + SIB
AM9 == Mm(-1, -1, 1, 268443680, 0, 0)        \* [0x10002020]    = DATA + 32    absolute disp32
AM10 == Mm(4, -1, 1, 16, 0, 0)               \* [rsp + 16]                     SIB forced by rsp
AMs == IF Wide THEN {AM1, AM2, AM3, AM4, AM5, AM6, AM7, AM8, AM9, AM10} ELSE {AM1, AM3, AM6, AM7}
AMfew == IF Wide THEN {AM1, AM3, AM6, AM8} ELSE {AM1, AM6}
AMleg == {AM1, AM2}                          \* usable together with AH..BH (no REX prefix)

Sizes == {8, 16, 32, 64}
RR == IF Wide THEN {<<0, 3>>, <<9, 2>>, <<6, 14>>, <<0, 0>>, <<11, 0>>, <<3, 1>>} ELSE {<<0, 3>>, <<9, 2>>, <<0, 0>>}
RRops(sz) == {<<Rg(p[1]), Rg(p[2])>> : p \in RR}
             \cup (IF sz = 8 THEN {<<Rh(4), Rg(3)>>, <<Rg(1), Rh(7)>>, <<Rg(6), Rg(7)>>, <<Rh(5), Rh(5)>>} ELSE {})
DataRegs(sz) == {Rg(0), Rg(9)} \cup (IF Wide THEN {Rg(2)} ELSE {})
Imms(sz) == {1, -1, 127, -128}
            \cup (IF sz >= 16 THEN {128, 32767, -32768} ELSE {})
            \cup (IF sz >= 32 THEN {2147483647, -2147483647} ELSE {})
ImmRegs == {Rg(0), Rg(3), Rg(9)}             \* rax has its own short encodings

Alu2Forms(mn) == UNION {
  {Fm(mn, sz, p[1], p[2], No) : p \in RRops(sz)}
  \cup (IF mn = "test" THEN {} ELSE {Fm(mn, sz, r, m, No) : r \in DataRegs(sz), m \in AMs})
  \cup {Fm(mn, sz, m, r, No) : r \in DataRegs(sz), m \in AMs}
  \cup (IF sz = 8 THEN {Fm(mn, 8, Rh(4), m, No) : m \in AMleg} \cup {Fm(mn, 8, m, Rh(6), No) : m \in AMleg} ELSE {})
  \cup {Fm(mn, sz, r, Im(v), No) : r \in ImmRegs, v \in Imms(sz)}
  \cup {Fm(mn, sz, m, Im(v), No) : m \in AMfew, v \in {1, -1} \cup (IF sz >= 16 THEN {1000} ELSE {})}
  : sz \in Sizes}
UnaryForms(mn) == UNION {
  {Fm(mn, sz, r, No, No) : r \in ImmRegs \cup (IF sz = 8 THEN {Rh(5), Rg(7)} ELSE {})}
  \cup {Fm(mn, sz, m, No, No) : m \in AMs} : sz \in Sizes}
MovxForms == UNION {
  {[Fm(mn, sz, d, s, No) EXCEPT !.ssz = ssz] :
      d \in {Rg(0), Rg(9)}, s \in {Rg(3), Rg(14)} \cup AMfew \cup (IF ssz = 8 THEN {Rg(6)} ELSE {})}
  \cup (IF ssz = 8 THEN {[Fm(mn, sz, Rg(2), Rh(7), No) EXCEPT !.ssz = 8]} ELSE {})
  : mn \in {"movzx", "movsx"}, sz \in {16, 32, 64}, ssz \in {8, 16}}
MovxOK(f) == f.ssz < f.sz
MovsxdForms == {[Fm("movsxd", 64, d, s, No) EXCEPT !.ssz = 32] : d \in {Rg(0), Rg(9)}, s \in {Rg(3), Rg(14)} \cup AMfew}
LeaForms == {Fm("lea", sz, r, m, No) : sz \in {16, 32, 64}, r \in {Rg(0), Rg(9)}, m \in AMs}
XchgForms == UNION {{Fm("xchg", sz, p[1], p[2], No) : p \in RRops(sz)}
                    \cup {Fm("xchg", sz, m, r, No) : r \in DataRegs(sz), m \in AMfew} : sz \in Sizes}
XaddForms(mn) == UNION {{Fm(mn, sz, p[1], p[2], No) : p \in RRops(sz)}
                        \cup {Fm(mn, sz, m, r, No) : r \in {Rg(9), Rg(2)}, m \in AMfew} : sz \in Sizes}
BswapForms == {Fm("bswap", sz, Rg(n), No, No) : sz \in {32, 64}, n \in {0, 3, 9, 13}}
PushForms == {Fm("push", 64, Rg(n), No, No) : n \in {0, 3, 9, 4}} \cup {Fm("push", 16, Rg(n), No, No) : n \in {0, 9}}
             \cup {Fm("push", 64, Im(v), No, No) : v \in {1, -1, 127, 128, -2147483647}}
             \cup {Fm("push", 64, m, No, No) : m \in {AM1, AM3, AM6}}
PopForms == {Fm("pop", 64, Rg(n), No, No) : n \in {0, 3, 9, 4}} \cup {Fm("pop", 16, Rg(0), No, No)}
            \cup {Fm("pop", 64, m, No, No) : m \in {AM1, AM6}}
Counts(sz) == {Im(1), Im(4), Im(sz - 1), Im(sz), Im(33), Cl}
ShiftForms(mn) == UNION {{Fm(mn, sz, d, c, No) : d \in {Rg(0), Rg(3), Rg(9)} \cup AMfew \cup (IF sz = 8 THEN {Rh(7)} ELSE {}),
                                                   c \in Counts(sz)} : sz \in Sizes}
DShiftForms(mn) == UNION {{Fm(mn, sz, d, s, c) : d \in {Rg(0), Rg(9), AM1}, s \in {Rg(2), Rg(11)},
                                                    c \in {Im(1), Im(4), Im(sz - 1), Cl}} : sz \in {16, 32, 64}}
MulForms(mn) == UNION {{Fm(mn, sz, o, No, No) : o \in {Rg(3), Rg(9), Rg(1), AM1, AM6} \cup (IF sz = 8 THEN {Rh(7)} ELSE {})}
                       : sz \in Sizes}
Imul23Forms == UNION {{Fm("imul", sz, p[1], p[2], No) : p \in RRops(sz)}
                      \cup {Fm("imul", sz, r, m, No) : r \in {Rg(0), Rg(9)}, m \in AMfew}
                      \cup {Fm("imul", sz, Rg(p[1]), Rg(p[2]), Im(v)) : p \in RR, v \in {3, -1, 1000}}
                      \cup {Fm("imul", sz, Rg(0), m, Im(v)) : m \in {AM1}, v \in {-2, 300}} : sz \in {16, 32, 64}}
BtForms(mn) == UNION {{Fm(mn, sz, d, Rg(n), No) : d \in {Rg(0), Rg(3), Rg(9)}, n \in {2, 11}}
                      \cup {Fm(mn, sz, d, Im(v), No) : d \in {Rg(0), Rg(9), AM1, AM6}, v \in {0, 5, sz - 1, sz + 3}}
                      : sz \in {16, 32, 64}}
BsForms(mn) == UNION {{Fm(mn, sz, Rg(d), s, No) : d \in {0, 9}, s \in {Rg(3), Rg(14), AM1}} : sz \in {16, 32, 64}}
ConvForms == {Fm(mn, 0, No, No, No) : mn \in {"cbw", "cwde", "cdqe", "cwd", "cdq", "cqo", "stc", "clc", "cmc", "std", "cld", "lahf", "sahf"}}
SetccForms == {[Fm("setcc", 8, d, No, No) EXCEPT !.cc = cc] : cc \in 0..15, d \in {Rg(0), Rg(3), Rg(6), Rg(9), Rh(5), AM1, AM3}}
CmovForms == {[Fm("cmovcc", sz, p[1], p[2], No) EXCEPT !.cc = cc] :
                 cc \in 0..15, sz \in {16, 32, 64}, p \in {<<Rg(0), Rg(3)>>, <<Rg(9), Rg(2)>>, <<Rg(0), AM1>>, <<Rg(9), AM6>>}}
JccForms == {[Fm("jcc", 0, Im(p[1]), No, No) EXCEPT !.cc = cc, !.ssz = p[2]] :
                cc \in 0..15, p \in {<<32, 8>>, <<-48, 8>>, <<127, 8>>, <<-128, 8>>, <<300, 32>>, <<-300, 32>>}}

FormsOf(mn) ==
  CASE mn \in ALU2 -> Alu2Forms(mn)
    [] mn = "mov" -> Alu2Forms("mov")
    [] mn \in {"inc", "dec", "neg", "not"} -> UnaryForms(mn)
    [] mn \in {"movzx", "movsx"} -> {f \in MovxForms : f.mn = mn /\ MovxOK(f)}
    [] mn = "movsxd" -> MovsxdForms
    [] mn = "lea" -> LeaForms
    [] mn = "xchg" -> XchgForms
    [] mn \in {"xadd", "cmpxchg"} -> XaddForms(mn)
    [] mn = "bswap" -> BswapForms
    [] mn = "push" -> PushForms
    [] mn = "pop" -> PopForms
    [] mn \in SHIFTS -> ShiftForms(mn)
    [] mn \in {"shld", "shrd"} -> DShiftForms(mn)
    [] mn \in {"mul", "div", "idiv"} -> MulForms(mn)
    [] mn = "imul" -> MulForms(mn) \cup Imul23Forms
    [] mn \in {"bt", "bts", "btr", "btc"} -> BtForms(mn)
    [] mn \in {"bsf", "bsr"} -> BsForms(mn)
    [] mn = "setcc" -> SetccForms
    [] mn = "cmovcc" -> CmovForms
    [] mn = "jcc" -> JccForms
    [] OTHER -> {f \in ConvForms : f.mn = mn}
Forms == UNION {FormsOf(mn) : mn \in MnSel}

(* classes to exercise per form *)
VC == {"zero", "one", "ones", "min", "max", "rand", "small"}
ValPairs == {<<"rand", "rand">>, <<"ones", "one">>, <<"min", "ones">>, <<"max", "one">>, <<"zero", "zero">>, <<"min", "min">>,
             <<"rand", "ones">>, <<"zero", "rand">>, <<"one", "max">>, <<"small", "small">>, <<"ones", "ones">>, <<"rand", "min">>}
ClassesOf(f) ==
  [vals |-> ValPairs,
   fls  |-> {"zero", "ones", "rand"},
   offs |-> {"first", "odd", "last", "rand"},
   cnts |-> IF f.mn \in SHIFTS \cup {"shld", "shrd"} THEN {0, 1, f.sz - 1, f.sz, f.sz + 1, 31, 32, 33, 63, 64, 255} ELSE {0}]

Init == ph = 0 /\ cur = <<>>
Next == /\ ph = 0 /\ ph' = 1
        /\ \E f \in Forms :
             cur' = [f |-> f,
                     asm |-> IF f.mn = "jcc" THEN "" ELSE AsmText(f),
                     jb |-> IF f.mn = "jcc" THEN JccBytes(f.cc, f.o1.v, f.ssz = 32) ELSE <<>>,
                     cls |-> ClassesOf(f)]
Emit == (ph = 1) => PrintT(ToJson(cur))
=============================================================================
