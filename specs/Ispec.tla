-------------------------------- MODULE Ispec --------------------------------
(***************************************************************************)
(* C03 - instruction specifications mean what the format language says.    *)
(*                                                                         *)
(* A small state machine writes format strings token by token              *)
(*      Start(len, dir, cls, style, suffix) ; Emit(directive) ... ; Close  *)
(* and the finished string is rendered to code points in one of three      *)
(* lexical styles.  On every finished format TLC checks (M):               *)
(*   RoundTrip   Parse(Ia32Expand(Render(tokens))) is the token list       *)
(*   DocImpl     ispec.buildspec (IspecLang!Impl, transcribed) reports an  *)
(*               error exactly on the ill-formed formats and otherwise     *)
(*               computes size/fix/mask/extractors of the documented       *)
(*               meaning (IspecLang!Doc)                                   *)
(*   FieldsInside, MaskExact, Partition, Mirror                            *)
(*   DecodeSem   the transcription of ispec.decode (byte reversal, Bits    *)
(*               load, mask test, tail concatenation, slicing) accepts     *)
(*               the documented words and extracts the documented bits     *)
(* Under a generator configuration (Gen = TRUE) every finished, well       *)
(* formed format is printed with the layout and, for a list of instruction *)
(* words chosen by the spec (all words / boundary words + seeded pseudo    *)
(* random words, both fetch orders, trailing bytes, truncation, a prior    *)
(* prefix instruction, a rejecting setup function), what decode must do.   *)
(* harness/c03.py replays them on the real ispec / ispec_ia32 classes (G). *)
(***************************************************************************)
EXTENDS IspecLang, TLC, Json, IOUtils

CONSTANTS Lens,        \* LEN values; 0 stands for '*'
          Dirs,        \* subset of {"<", ">"}
          MaxDirs,     \* at most this many directives
          FieldLens,   \* lengths of ordinary fields
          Opts,        \* subset of {"", ".", "~", "#"}
          EqLens,      \* lengths of '=' overlays ({} : none)
          ByteVals,    \* values for {hh}
          Stars,       \* BOOLEAN: allow one variable-length directive
          Classes,     \* subset of {"core", "x86", "x64"}: ispec / ispec_ia32 of x86, x64
          Styles,      \* subset of {"spaced", "tight", "odd"}
          Sfx,         \* subset of {"none", "prefix", "xdata", "both"}
          Slack,       \* bits a format may overshoot its length (0: generator; >0: M explores ill-formed ones)
          VarMax,      \* bit budget of the fixed part of a '*' format
          DupNames,    \* BOOLEAN: also try a repeated symbol
          ModRMs,      \* ModRM macro variants offered to ispec_ia32 formats: 8 = /r, 0..7 = /digit
          Fill,        \* BOOLEAN: also offer a field that takes all the bits left (keeps simulation runs productive)
          Gen,         \* BOOLEAN: print behaviours
          WordMode,    \* "all" | "boundary"
          NRand,       \* pseudo-random words per format
          Dev          \* faults injected in the transcription (self-test)

VARIABLES phase, hdr, toks, sfx
vars == <<phase, hdr, toks, sfx>>

-----------------------------------------------------------------------------
(* tokens: the directives of IspecLang plus the ModRM macro                *)
DModRM(v) == [k |-> "modrm", v |-> v, opt |-> "", name |-> <<>>, n |-> 8]    \* v = 8: /r, 0..7: /digit

S(str) == str      \* names are written as code point tuples below
Pool == << <<97>>, <<114, 100>>, <<105, 109, 109, 95, 49>>, <<88, 57>>, <<95, 102>>, <<82, 110, 50>>,
           <<98>>, <<99, 99>>, <<122, 95>>, <<81>>, <<111, 112, 50>>, <<107, 48>> >>
          \* a rd imm_1 X9 _f Rn2 b cc z_ Q op2 k0
NameFor(k) == Pool[((k - 1) % Len(Pool)) + 1]

TokAdv(d) == IF d.k = "modrm" THEN 8 ELSE Adv(d)
RECURSIVE UsedFrom(_, _)
UsedFrom(ts, k) == IF k > Len(ts) THEN 0 ELSE TokAdv(ts[k]) + UsedFrom(ts, k + 1)
Used(ts) == UsedFrom(ts, 1)
HasStar(ts) == \E k \in 1..Len(ts) : IsStar(ts[k]) \/ ts[k].k = "modrm"

Cap == IF hdr.len = 0 THEN VarMax + Slack ELSE hdr.len + Slack

Candidates ==
  LET nm == NameFor(Len(toks) + 1)
      names == IF DupNames THEN {nm, NameFor(1)} ELSE {nm}
  IN  {DBit(0), DBit(1), DDc}
      \cup {DByte(v) : v \in ByteVals}
      \cup {DFld(o, x, n) : o \in Opts, x \in names, n \in FieldLens}
      \cup {DFld("=", nm, n) : n \in EqLens}
      \cup (IF Stars THEN {DFld(o, nm, -1) : o \in Opts \cup (IF Slack > 0 /\ EqLens # {} THEN {"="} ELSE {})} ELSE {})
      \cup (IF hdr.cls # "core" THEN {DModRM(v) : v \in ModRMs} ELSE {})
      \cup (IF Fill /\ hdr.len # 0 /\ Used(toks) < hdr.len THEN {DFld(o, nm, hdr.len - Used(toks)) : o \in Opts} ELSE {})

Init == phase = "hdr" /\ hdr = [len |-> 0, dir |-> "<", cls |-> "core", style |-> "spaced"] /\ toks = <<>> /\ sfx = "none"

Start(l, d, c, st, s) ==
  /\ phase = "hdr"
  /\ hdr' = [len |-> l, dir |-> d, cls |-> c, style |-> st]
  /\ sfx' = s
  /\ phase' = "body" /\ UNCHANGED toks

Emit(d) ==
  /\ phase = "body" /\ Len(toks) < MaxDirs
  /\ Used(toks) + TokAdv(d) <= Cap
  /\ (Slack = 0 => ~HasStar(toks) \/ hdr.dir = "<")      \* nothing can follow the star field of a '>' format
  /\ (Slack = 0 /\ hdr.dir = "<" /\ IsStar(d) => toks = <<>>)
  /\ (Slack = 0 /\ d.k = "modrm" => hdr.dir = ">" /\ hdr.len = 0)
  /\ (d.k = "modrm" => ~\E k \in 1..Len(toks) : toks[k].k = "modrm")   \* the macro names one character
  /\ toks' = Append(toks, d)
  /\ UNCHANGED <<phase, hdr, sfx>>

Closable == IF Slack > 0 THEN TRUE
            ELSE IF hdr.len = 0 THEN Used(toks) % 8 = 0 /\ Used(toks) > 0
            ELSE IF HasStar(toks) THEN Used(toks) < hdr.len ELSE Used(toks) = hdr.len

Close ==
  /\ phase = "body" /\ Len(toks) >= 1 /\ Closable
  /\ phase' = "done" /\ UNCHANGED <<hdr, toks, sfx>>

Next == \/ \E l \in Lens, d \in Dirs, c \in Classes, st \in Styles, s \in Sfx : Start(l, d, c, st, s)
        \/ \E d \in Candidates : Emit(d)
        \/ Close

Spec == Init /\ [][Next]_vars

-----------------------------------------------------------------------------
(* rendering *)
RECURSIVE NumStr(_)
NumStr(n) == IF n < 10 THEN <<48 + n>> ELSE NumStr(n \div 10) \o <<48 + (n % 10)>>
HexDigit(v, upper) == IF v < 10 THEN 48 + v ELSE (IF upper THEN 55 ELSE 87) + v
OptCp(o) == CASE o = "." -> <<46>> [] o = "~" -> <<126>> [] o = "#" -> <<35>> [] o = "=" -> <<61>> [] OTHER -> <<>>

TokStr(d, style) ==
  CASE d.k = "bit"  -> <<48 + d.v>>
    [] d.k = "dc"   -> <<45>>
    [] d.k = "byte" -> <<123, HexDigit(d.v \div 16, style = "tight"), HexDigit(d.v % 16, style = "tight"), 125>>
    [] d.k = "modrm" -> <<47, IF d.v = 8 THEN 114 ELSE 48 + d.v>>
    [] OTHER ->
       LET loc == IF d.n = -1 THEN <<42>> ELSE NumStr(d.n) IN
       IF style = "odd" THEN OptCp(d.opt) \o (IF d.opt = "" THEN <<>> ELSE <<32>>) \o d.name \o <<32, 40, 32>> \o loc \o <<9, 41>>
       ELSE IF style = "tight" /\ d.n = 1 THEN OptCp(d.opt) \o d.name           \* default location
       ELSE OptCp(d.opt) \o d.name \o <<40>> \o loc \o <<41>>

BareName(d, style) == d.k = "fld" /\ style = "tight" /\ d.n = 1

RECURSIVE Body(_, _, _)
Body(ts, k, style) ==
  IF k > Len(ts) THEN <<>>
  ELSE LET t   == TokStr(ts[k], style)
           nxt == IF k = Len(ts) THEN <<93>>
                  ELSE IF ts[k + 1].k = "modrm" THEN <<82>>       \* the macro is replaced by text starting with R
                  ELSE TokStr(ts[k + 1], style)
           sep == IF style = "spaced" THEN <<32>>
                  ELSE IF style = "odd" THEN (IF k % 2 = 0 THEN <<10>> ELSE <<32, 32>>)
                  ELSE IF BareName(ts[k], style) /\ IsSymC(nxt[1]) THEN <<32>> ELSE <<>>
       IN t \o sep \o Body(ts, k + 1, style)

SfxStr(s, style) ==
  LET sp == IF style = "tight" THEN <<>> ELSE <<32>> IN
  CASE s = "prefix" -> sp \o <<43>> [] s = "xdata" -> sp \o <<38>> [] s = "both" -> sp \o <<43>> \o sp \o <<38>>
    [] OTHER -> IF style = "odd" THEN <<32>> ELSE <<>>

Render(h, ts, s) ==
  LET st == h.style
      len == IF h.len = 0 THEN <<42>> ELSE NumStr(h.len)
      dir == IF h.dir = ">" THEN <<62>> ELSE IF st = "tight" THEN <<>> ELSE <<60>>
      open == IF st = "spaced" THEN <<91, 32>> ELSE IF st = "odd" THEN <<9, 91, 32>> ELSE <<91>>
  IN (IF st = "odd" THEN <<32>> ELSE <<>>) \o len \o (IF st = "odd" THEN <<32>> ELSE <<>>) \o dir \o open
     \o Body(ts, 1, st) \o <<93>> \o SfxStr(s, st)

(* what the tokens mean as an AST *)
ExpandTok(d) ==
  IF d.k # "modrm" THEN <<d>>
  ELSE <<DFld("", <<82, 77>>, 3)>>
       \o (IF d.v = 8 THEN <<DFld("", <<82, 69, 71>>, 3)>> ELSE [t \in 1..3 |-> DBit(BitOf(d.v, t - 1))])
       \o <<DFld("", <<77, 111, 100>>, 2), DFld("~", <<100, 97, 116, 97>>, -1)>>
AstOf(h, ts, s) ==
  [ok |-> TRUE, len |-> IF h.len = 0 THEN -1 ELSE h.len, dir |-> h.dir,
   dirs |-> Flat([k \in 1..Len(ts) |-> ExpandTok(ts[k])]),
   plus |-> s \in {"prefix", "both"}, amp |-> s \in {"xdata", "both"}]

Fmt      == Render(hdr, toks, sfx)
FmtSeen  == IF hdr.cls = "core" THEN Fmt ELSE Ia32Expand(Fmt)     \* the string ispec.__init__ receives
TheAst   == AstOf(hdr, toks, sfx)

-----------------------------------------------------------------------------
(* ispec.decode, transcribed: returns [acc, word] where word is the Bits    *)
(* object the extractors slice (LSB first)                                  *)
ImplDecode(size, fix, mask, var, bytes, endian) ==
  LET blen == size \div 8
      short == Len(bytes) < blen
      bs   == SubSeq(bytes, 1, blen)
      ival == IF endian = 1 \/ "BigEndianNoReverse" \in Dev THEN bs ELSE Rev(bs)         \* bs[::endian]
      b    == Flat([j \in 1..blen |-> ByteBits(ival[j])])                              \* Bits(ival, size, bitorder=1)
      hit  == \A k \in 1..size : (IF mask[k] = 1 THEN b[k] ELSE 0) = fix[k]
      tail == Flat([j \in 1..(Len(bytes) - blen) |-> ByteBits(bytes[blen + j])])
  IN IF short THEN [acc |-> FALSE, word |-> <<>>]
     ELSE IF ~hit THEN [acc |-> FALSE, word |-> <<>>]
     ELSE [acc |-> TRUE, word |-> IF var THEN b \o tail ELSE b]
ImplSlice(word, lo, hi) == SubSeq(word, lo + 1, IF hi = -1 THEN Len(word) ELSE hi)

-----------------------------------------------------------------------------
(* instruction words *)
RECURSIVE SetToSeq(_)
SetToSeq(X) == IF X = {} THEN <<>> ELSE LET x == CHOOSE x \in X : TRUE IN <<x>> \o SetToSeq(X \ {x})
RECURSIVE SortedSeq(_)
SortedSeq(X) == IF X = {} THEN <<>> ELSE LET x == CHOOSE x \in X : \A y \in X : x <= y IN <<x>> \o SortedSeq(X \ {x})

BitsToBytes(w) == [j \in 1..(Len(w) \div 8) |-> LET o == 8 * (j - 1) IN
                     w[o+1] + 2*w[o+2] + 4*w[o+3] + 8*w[o+4] + 16*w[o+5] + 32*w[o+6] + 64*w[o+7] + 128*w[o+8]]
(* the first size/8 bytes that carry word w under the given fetch order *)
WordBytes(w, endian) == IF endian = 1 THEN BitsToBytes(w) ELSE Rev(BitsToBytes(w))

Lcg(x) == (25173 * x + 13849) % 65536
RECURSIVE RandBytes(_, _)
RandBytes(n, x) == IF n = 0 THEN <<>> ELSE <<Lcg(x) \div 256>> \o RandBytes(n - 1, Lcg(x))
RECURSIVE HashFrom(_, _, _)
HashFrom(s, k, h) == IF k > Len(s) THEN h ELSE HashFrom(s, k + 1, (h * 31 + s[k]) % 65521)
SeedOf(fmt) == (HashFrom(fmt, 1, 7) + 977 * (atoi(IOEnv.VERIF_SEED) % 60000)) % 65536

WordsOf(L, fmt) ==
  LET size == L.size
      W0 == [b \in 1..size |-> IF L.pat[b] = 1 THEN 1 ELSE 0]
      W1 == [b \in 1..size |-> IF L.pat[b] = 0 THEN 0 ELSE 1]
      Flip(w, b) == [w EXCEPT ![b] = 1 - @]
      edges == UNION {{f.lo, f.lo + 1, IF f.hi = -1 THEN size ELSE f.hi, (IF f.hi = -1 THEN size ELSE f.hi) + 1} : f \in L.fields}
      fixedpos == {b \in 1..size : L.pat[b] # 2}
      B == (edges \cup {1, 8, 9, size} \cup (IF fixedpos = {} THEN {} ELSE
              {CHOOSE b \in fixedpos : \A c \in fixedpos : b <= c, CHOOSE b \in fixedpos : \A c \in fixedpos : b >= c}))
           \cap (1..size)
      seed == SeedOf(fmt)
      rnd(k) == LET rb == RandBytes(size \div 8, (seed + 7919 * k) % 65536)
                    rw == Flat([j \in 1..Len(rb) |-> ByteBits(rb[j])])
                IN IF k % 2 = 0 THEN rw                                   \* arbitrary word
                   ELSE [b \in 1..size |-> IF L.pat[b] = 2 THEN rw[b] ELSE L.pat[b]]   \* matching word, random free bits
  IN IF WordMode = "all" /\ size = 8
     THEN [v \in 1..256 |-> ByteBits(v - 1)]
     ELSE LET sb == SortedSeq(B) IN
          <<W0, W1>> \o [k \in 1..Len(sb) |-> Flip(IF k % 2 = 0 THEN W1 ELSE W0, sb[k])]
          \o [k \in 1..NRand |-> rnd(k)]

(* one case: which bytes, which fetch order, a partial (prefix) instruction  *)
(* already holding `pre`, and whether the setup function rejects             *)
CaseOfBytes(L, bytes, endian, pre, hook) ==
  LET acc   == Accepts(L, bytes, endian)
      got   == IF acc THEN SetToSeq(Delivered(L, bytes, endian)) ELSE <<>>
  IN [bytes |-> bytes, endian |-> endian, pre |-> pre, hook |-> hook,
      out |-> IF ~acc THEN "rej" ELSE IF hook = "reject" THEN "hookrej" ELSE "acc",
      got |-> got,
      ibytes |-> IF acc /\ hook = "ok" THEN pre \o SubSeq(bytes, 1, L.size \div 8) ELSE pre,
      attrs_after |-> IF acc /\ hook = "ok" THEN SetToSeq({f.name : f \in {g \in L.fields : g.dest = "attr"}}) ELSE <<>>]

CaseOf(L, w, endian, ntail, trunc, pre, hook, seed) ==
  LET full  == WordBytes(w, endian) \o RandBytes(ntail, seed)
      bytes == IF trunc THEN SubSeq(full, 1, (L.size \div 8) - 1) ELSE full
  IN CaseOfBytes(L, bytes, endian, pre, hook)

(* a variable-length spec is followed by ALL remaining input bytes: long inputs (17, 24 and 40 bytes in  *)
(* all, the last byte non-zero so that a shortened tail changes every form of the value)               *)
LongCase(L, w, total, seed) ==
  LET head == WordBytes(w, 1)
      n    == total - Len(head) - 1
  IN CaseOfBytes(L, head \o RandBytes(IF n > 0 THEN n ELSE 0, seed) \o <<129>>, 1, <<>>, "ok")

CasesOf(L, fmt) ==
  LET ws == WordsOf(L, fmt)
      seed == SeedOf(fmt)
      ends == IF L.var THEN <<1>> ELSE <<1, -1>>
      EndsFor(k) == IF WordMode = "all" /\ ~L.var THEN <<ends[(k % 2) + 1]>> ELSE ends    \* one byte: same word either way
      main == Flat([k \in 1..Len(ws) |->
                 [e \in 1..Len(EndsFor(k)) |->
                    CaseOf(L, ws[k], EndsFor(k)[e], (k + e) % (IF L.var THEN 5 ELSE 3), FALSE, <<>>, "ok", (seed + 31 * k + e) % 65536)]])
      extra == << CaseOf(L, ws[1], 1, 0, TRUE, <<>>, "ok", seed),                         \* one byte short
                  CaseOf(L, ws[2], 1, 1, FALSE, <<102>>, "ok", seed),                     \* after a prefix
                  CaseOf(L, ws[1], 1, 2, FALSE, <<102, 103>>, "reject", seed),            \* setup function rejects
                  CaseOf(L, ws[2], ends[Len(ends)], 0, FALSE, <<>>, "reject", seed) >>
      long == IF L.var THEN << LongCase(L, ws[2], 17, seed), LongCase(L, ws[1], 24, (seed + 5) % 65536),
                                LongCase(L, ws[2], 40, (seed + 11) % 65536) >>
              ELSE <<>>
  IN main \o extra \o long

Behaviour ==
  LET L == Doc(TheAst) IN
  [fmt |-> Fmt, cls |-> hdr.cls, seen |-> FmtSeen,
   lay |-> [size |-> IF L.var THEN 0 ELSE L.size, n |-> L.size, fix |-> Fix(L), mask |-> Mask(L), pfx |-> L.pfx,
            ex |-> SetToSeq(L.fields)],
   cases |-> CasesOf(L, Fmt)]

EmitC == (Gen /\ phase = "done" /\ Doc(TheAst).wf) => PrintT(ToJson(Behaviour))

-----------------------------------------------------------------------------
(* invariants (M) *)
Done == phase = "done"

RoundTrip == Done => Parse(FmtSeen) = TheAst

DocImpl == Done =>
  LET D == Doc(TheAst)
      I == Impl(TheAst, Dev)
  IN /\ D.wf <=> (I.errs = {})
     /\ D.wf => /\ I.size = D.size
                /\ I.fix = Fix(D) /\ I.mask = Mask(D)
                /\ I.fields = D.fields

FieldsInside == Done =>
  LET D == Doc(TheAst) IN
  D.wf => \A f \in D.fields : LET hi == IF f.hi = -1 THEN D.size ELSE f.hi IN 0 <= f.lo /\ f.lo <= hi /\ hi <= D.size

(* the mask covers exactly the fixed directives; the non-overlay directives tile [0, size) *)
MaskExact == Done =>
  LET D == Doc(TheAst)
      ds == TheAst.dirs
      nfixed == SumTo([k \in 1..Len(ds) |-> IF ds[k].k = "bit" THEN 1 ELSE IF ds[k].k = "byte" THEN 8 ELSE 0], Len(ds))
      claimed == SumTo([k \in 1..Len(ds) |-> Adv(ds[k])], Len(ds))
  IN D.wf => /\ Len(D.pat) = D.size
             /\ Cardinality({b \in 1..D.size : D.pat[b] # 2}) = nfixed
             /\ \A b \in 1..D.size : Fix(D)[b] = 1 => Mask(D)[b] = 1
             /\ (claimed = D.size \/ (claimed < D.size /\ \E k \in 1..Len(ds) : IsStar(ds[k])))

(* writing the same directives in the other direction, in reverse order, is the same spec *)
Mirror == Done =>
  LET a == TheAst
      m == [a EXCEPT !.dir = IF a.dir = "<" THEN ">" ELSE "<", !.dirs = Rev(a.dirs)]
      D == Doc(a)
      E == Doc(m)
      NoRev(F) == {[f EXCEPT !.rev = FALSE] : f \in F}
  IN (D.wf /\ ~\E k \in 1..Len(a.dirs) : IsEq(a.dirs[k])) =>
       E.wf /\ E.size = D.size /\ E.pat = D.pat /\ NoRev(E.fields) = NoRev(D.fields)
       /\ \A f \in D.fields : f.repr = "str" => \E g \in E.fields : g.name = f.name /\ g.rev # f.rev

(* the decode algorithm agrees with the documented acceptance and field bits on the spec's words *)
DecodeSem == Done =>
  LET D == Doc(TheAst) IN
  D.wf =>
    LET ws == IF D.size = 8 THEN [v \in 1..256 |-> ByteBits(v - 1)]
              ELSE LET W0 == [b \in 1..D.size |-> IF D.pat[b] = 1 THEN 1 ELSE 0]
                       W1 == [b \in 1..D.size |-> IF D.pat[b] = 0 THEN 0 ELSE 1]
                   IN <<W0, W1>> \o [b \in 1..D.size |-> [W0 EXCEPT ![b] = 1 - @]]
    IN \A k \in 1..Len(ws) : \A e \in (IF D.var \/ D.size = 8 THEN {1} ELSE {1, -1}) :
       \A tail \in (IF D.var THEN {<<>>, <<165>>, <<60, 129>>} ELSE {IF k % 2 = 0 THEN <<>> ELSE <<60, 129>>}) :
         LET bytes == WordBytes(ws[k], e) \o tail
             r == ImplDecode(D.size, Fix(D), Mask(D), D.var, bytes, e)
         IN /\ r.acc = Accepts(D, bytes, e)
            /\ r.acc => \A f \in D.fields : ImplSlice(r.word, f.lo, f.hi) = FieldBits(D, f, bytes, e)
            /\ ~ImplDecode(D.size, Fix(D), Mask(D), D.var, SubSeq(bytes, 1, (D.size \div 8) - 1), e).acc
=============================================================================
