\* C09 M (quick): the REPAIRED design (no quirk) is correct for every program of <= 3 stores through p, q with
\* offsets {0,1}, sizes {1,2} bytes, every next load, every relative position of q (-3..3), both endiannesses,
\* both aliasing settings; symbolic meaning and amoco's own instantiation c >> m
CONSTANTS
  Ptrs = {"p", "q"}
  Offs = {0, 1}
  Sizes = {1, 2}
  Deltas <- DeltasSmall
  P0 = 4
  Top = 10
  NAs = {FALSE, TRUE}
  MTs = {TRUE}
  Ens <- EnsBoth
  MInits = {0}
  VKs = {"d"}
  MaxSt = 3
  MaxLd = 0
  MaxLen = 3
  Template <- NoTemplate
  Q = {}
  Clauses <- AllClauses
  Probe = TRUE
  PvInState = FALSE
  Gen = FALSE
INIT Init
NEXT Next
CHECK_DEADLOCK FALSE
INVARIANTS Correct
