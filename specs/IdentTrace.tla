----------------------------- MODULE IdentTrace -----------------------------
(***************************************************************************)
(* C20, code -> spec: decides whether a chain recorded from the real        *)
(* read_program (harness/c20child.py: one event per log line of             *)
(* read_program, with the exception being handled and the file cursor at    *)
(* that moment, then the way the call ended) is a behaviour of Ident.       *)
(*                                                                          *)
(* TRACE_FILE is NDJSON, one trace per line:                                *)
(*   [t |-> id, truth |-> "ELF".."SREC" | "none" | "any", ev |-> <<events>>]*)
(* events  [a, f, e, cur]:                                                  *)
(*   a = "reject"  stage f caught exception type e, cursor then at cur      *)
(*   a = "accept"  f's constructor returned (f from the type of the result); *)
(*                 h = first 4 bytes of the input, g = the 4 bytes at        *)
(*                 e_lfanew if it starts with "MZ" (else <<>>)               *)
(*   a = "raw"     the raw fallback object was returned                     *)
(*   a = "raise"   exception type e left read_program                       *)
(*   a = "timeout" | "exhaust" | "killed"   CPU-time limit hit / MemoryError*)
(*                 or RecursionError was raised (e) / the child died        *)
(*   a = "parser"  (contract traces) parser f called alone on the input     *)
(*                 ended with outcome e ("accept" or an exception type)     *)
(* The trace is replayed through Ident's own StageStep/Outcomes. Verdicts   *)
(* are total: the first failing clause of kind prop (= C20's statement) and *)
(* of kind drift (= stricter, implementation-shaped) are recorded and the   *)
(* trace is consumed to its end.                                            *)
(***************************************************************************)
EXTENDS Ident

Traces == ndJsonDeserialize(IOEnv.TRACE_FILE)

VARIABLES tid, l, pv, dv, fin
tvars == <<tid, l, pv, dv, fin>>

Tr == Traces[tid]
Ev == Tr.ev[l]

TInit == /\ tid \in 1..Len(Traces)
         /\ l = 1 /\ pv = "ok" /\ dv = "ok" /\ fin = FALSE
         /\ base = 0 /\ ops = <<>>
         /\ truth = Traces[tid].truth
         /\ st = S0

Mark(old, bad, clause) == IF old = "ok" /\ bad THEN ToJson([line |-> l, clause |-> clause]) ELSE old
(* first failing clause of a list <<bad1, name1>>, <<bad2, name2>>, ...     *)
RECURSIVE MarkAll(_, _)
MarkAll(old, L) == IF L = <<>> THEN old ELSE MarkAll(Mark(old, L[1][1], L[1][2]), Tail(L))

Expected == IF st.stage <= 6 THEN Canon[st.stage] ELSE "raw"

TStep ==
  /\ ~fin /\ l <= Len(Tr.ev)
  /\ l' = l + 1
  /\ UNCHANGED <<tid, fin, base, ops, truth>>
  /\ LET e == Ev f == Ev.f IN
     CASE Done(st) ->
            /\ pv' = Mark(pv, TRUE, "EventAfterEnd") /\ UNCHANGED <<dv, st>>
       [] e.a = "reject" /\ f \in Formats ->
            LET s0 == IF f = Expected THEN st ELSE [st EXCEPT !.stage = Pos(f)]
                dev == IF e.cur # 0 THEN {"NoSeek"} ELSE {}       \* the only fault that explains cur # 0
                nx == IF e.e \in Catches(f, {})
                      THEN StageStep(s0, f, e.e, TRUE, dev)
                      ELSE [s0 EXCEPT !.stage = @ + 1,          \* caught something the design does not catch
                                      !.chain = Append(@, [f |-> f, e |-> e.e, cur |-> 0])]
            IN /\ st' = nx
               /\ pv' = MarkAll(pv, << <<e.e \notin Rejections(f), "ForeignErrorSwallowed:" \o e.e>>,
                                       <<e.e \notin Outcomes(f, truth, st.cur, {}), "Misclaim:" \o f \o " rejected a valid " \o truth>> >>)
               /\ dv' = MarkAll(dv, << <<f # Expected, "Order:" \o f \o " tried where " \o Expected \o " is due">>,
                                       <<e.cur # 0, "CursorNotReset:" \o f>> >>)
       [] e.a = "accept" /\ f \in Formats ->
            LET s0 == IF f = Expected THEN st ELSE [st EXCEPT !.stage = Pos(f)]
                nx == StageStep(s0, f, "accept", FALSE, {})
            IN /\ st' = nx
               /\ pv' = MarkAll(pv, << <<"accept" \notin Outcomes(f, truth, st.cur, {}), "Misclaim:" \o f \o " claimed a valid " \o truth>>,
                                       <<~NoMisclaim(nx, truth), "Misclaim:" \o f \o " returned for a valid " \o truth>>,
                                       <<f \in Stream /\ st.cur # 0, "AcceptFromSuffix:" \o f>> >>)
               /\ dv' = MarkAll(dv, << <<f # Expected, "Order:" \o f \o " accepted where " \o Expected \o " is due">>,
                                       <<"h" \in DOMAIN e /\ ~MagicOK(f, e.h, e.g), "AcceptWithoutMagic:" \o f>> >>)
       [] e.a = "raw" ->
            LET nx == RawStep(st) IN
            /\ st' = nx
            /\ pv' = Mark(pv, ~NoMisclaim(nx, truth), "Misclaim:raw fallback for a valid " \o truth)
            /\ dv' = Mark(dv, st.stage # 7, "Order:raw fallback where " \o Expected \o " is due")
       [] e.a = "raise" ->
            /\ st' = [st EXCEPT !.res = [k |-> "raise", v |-> e.e]]
            /\ pv' = Mark(pv, TRUE, IF st.stage <= 6 /\ e.e \in Rejections(Expected)
                                    THEN "OwnErrorEscaped:" \o e.e ELSE "RaiseForeign:" \o e.e)
            /\ UNCHANGED dv
       [] e.a = "timeout" ->
            /\ st' = StageStep(st, Expected, "hang", FALSE, {})
            /\ pv' = Mark(pv, TRUE, "Timeout") /\ UNCHANGED dv
       [] e.a = "exhaust" ->
            /\ st' = [st EXCEPT !.res = [k |-> "exhaust", v |-> e.e]]
            /\ pv' = Mark(pv, TRUE, "Exhaust:" \o e.e) /\ UNCHANGED dv
       [] e.a = "killed" ->
            /\ st' = [st EXCEPT !.res = [k |-> "timeout", v |-> "killed"]]
            /\ pv' = Mark(pv, TRUE, "Killed") /\ UNCHANGED dv
       [] e.a = "parser" /\ f \in Formats ->
            /\ st' = [st EXCEPT !.res = [k |-> "accept", v |-> "parser"]]
            /\ dv' = Mark(dv, e.e \notin Guaranteed(f, truth, 0), "ContractBroken:" \o f \o " gave " \o e.e \o " on a valid " \o truth)
            /\ UNCHANGED pv
       [] OTHER ->
            /\ pv' = Mark(pv, TRUE, "UnknownEvent") /\ UNCHANGED <<dv, st>>

TFinish ==
  /\ ~fin /\ l > Len(Tr.ev)
  /\ fin' = TRUE
  /\ LET p == IF pv = "ok" /\ ~Done(st) THEN ToJson([line |-> l, clause |-> "Incomplete"]) ELSE pv IN
     PrintT(ToJson([t |-> Tr.t, prop |-> p, drift |-> dv, lines |-> l - 1, end |-> st.res.k, stage |-> st.stage]))
  /\ UNCHANGED <<tid, l, pv, dv, base, ops, truth, st>>

TNext == TStep \/ TFinish
=============================================================================
