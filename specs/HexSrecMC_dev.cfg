\* C14 self-test: a HEX checksum that skips the address bytes lets an address corruption through (Detect must fail)
CONSTANTS
  Dev = "HexSumNoAddr"
  Fmts = {"hex"}
  Seeds = {5, 300}
  MaxRecs = 2
  AllowMixed = TRUE
  NCorrupt = 0
  Subst0 = {48, 49, 56, 70, 71, 58, 83}
  WithRelocs = FALSE
  Lens = {0, 1, 3}
INIT Init
NEXT Next
INVARIANT RoundTrip
INVARIANT Detect
CHECK_DEADLOCK FALSE
