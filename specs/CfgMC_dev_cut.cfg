\* self-test: the fault CutDropsOne must violate Covers
CONSTANTS
  MinN = 3
  MaxN = 4
  Lens = {1}
  Flags = {"n", "c"}
  MaxIns = 2
  MaxLinks = 0
  MaxRe = 0
  Wide = FALSE
  GenHist = FALSE
  Dev = {"CutDropsOne"}
INIT Init
NEXT Next
INVARIANT Disjoint
INVARIANT Covers
INVARIANT FallThrough
INVARIANT NoRaise
INVARIANT NoOverlay
INVARIANT BlocksAreMaximalRuns
CHECK_DEADLOCK FALSE
