\* M: 2-bit units, sizes 1..2 units, both fetch orders, leaf threshold 3, tables of 3 specs
CONSTANTS
  U = 2
  Sizes = {1, 2}
  Endians <- EBoth
  LeafMax = 3
  MaxSpecs = 3
  HookVals = {TRUE}
  MinW = 3
  CallExtra = 0
  AnyN = 0
  Dev = {}
  Gen = FALSE
INIT Init
NEXT Next
INVARIANT Inv
CHECK_DEADLOCK FALSE
