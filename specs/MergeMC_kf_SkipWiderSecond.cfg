\* C19 finding: merge() as it is (second loop skips a key that mm has although m2's item is wider) must violate Covers
CONSTANTS
  Regs = {"a"}
  Flags = {"f"}
  RB = 2
  Offsets = {0, 1}
  Sizes = {1, 2}
  Kinds = {1, 2}
  PPs = {}
  MaxPre = 0
  MaxB = 1
  Widen = {FALSE}
  Thr = {FALSE}
  Conds = {0}
  Q = {"SkipWiderSecond"}
  Gen = FALSE
INIT Init
NEXT Next
CHECK_DEADLOCK FALSE
INVARIANTS Covers Untouched KeysOK
