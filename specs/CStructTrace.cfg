\* T-ref: gcc's sizeof / _Alignof / offsetof table against the layout rule (the generator constants are unused)
CONSTANTS
  RawT = {}
  ArrN = {}
  NestN = {}
  Ords = {}
  DefOrds = {}
  DefKinds = {}
  MaxF = 0
  MaxIF = 0
  MinF = 0
  MaxDepth = 0
  Feat = {}
  BitSplits <- BitSplitsNone
  PS = {}
  VCs = {}
  Stride = 1
  Dev = {}
  Mode = "mc"
INIT TInit
NEXT TNext
CHECK_DEADLOCK FALSE
