\* C15 M+G (ELF loader): every placement pattern of up to 3 segments (thorough tier), page sizes 16 / 64 / 4096, both classes (BFS);
\* the paging-loader model must leave exactly Image(bytes) in every segment
CONSTANTS
  Dev = ""
  Classes = {32, 64}
  Seeds = {7, 900}
  PageSizes = {16, 64, 4096}
  MaxSeg = 3
  Relations = {"apart", "adjacent", "samepage"}
  Tails = {"none", "inpage", "beyond"}
INIT Init
NEXT Next
INVARIANT Refines
CONSTRAINT Emit
CHECK_DEADLOCK FALSE
