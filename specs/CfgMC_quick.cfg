\* exhaustive design check (quick): streams of 1..5 unit-length instructions, every n/c/d flag placement, every order of every <= 4 domain blocks
CONSTANTS
  MinN = 1
  MaxN = 5
  Lens = {1}
  Flags = {"n", "c", "d"}
  MaxIns = 4
  MaxLinks = 0
  MaxRe = 0
  Wide = FALSE
  GenHist = FALSE
  Dev = {}
INIT Init
NEXT Next
INVARIANT Disjoint
INVARIANT Covers
INVARIANT FallThrough
INVARIANT NoRaise
INVARIANT NoOverlay
INVARIANT BlocksAreMaximalRuns
CHECK_DEADLOCK FALSE
