\* behaviour generator (thorough): every history of 3 actions, addresses 0..5, sizes 1..3
CONSTANTS
  MaxAddr = 5
  Sizes = {1, 2, 3}
  MaxOps = 3
  Zones = {"none"}
  Maps = 1
  Shifts = {}
  GenHist = TRUE
  Dev = {}
INIT Init
NEXT Next
CONSTRAINT Emit
CHECK_DEADLOCK FALSE
