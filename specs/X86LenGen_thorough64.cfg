\* C07 generator (thorough, 64-bit mode): one template per path class
CONSTANTS
  Dev = "none"
  Modes = {64}
  MaxPfx = 4
  PfxSeqs <- PfxThorough
  Hist = TRUE
INIT Init
NEXT Next
CONSTRAINT Emit
CHECK_DEADLOCK FALSE
