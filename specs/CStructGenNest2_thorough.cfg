\* M+G (thorough, exhaustive, nested depth 2): one member that is a struct / packed struct of <= 2 members, each a byte, a pointer or a definition of <= 2 bytes / pointers (alone or array of 2), both pointer sizes
CONSTANTS
  RawT = {"B", "P"}
  ArrN = {}
  NestN = {2}
  Ords = {""}
  DefOrds = {""}
  DefKinds = {"struct", "packed"}
  MaxF = 1
  MaxIF = 2
  MinF = 1
  MaxDepth = 2
  Feat = {"nestarr"}
  BitSplits <- BitSplitsNone
  PS = {32, 64}
  VCs = {"pat"}
  Dev = {}
  Mode = "gen"
INIT Init
NEXT Next
INVARIANT LayoutOK
INVARIANT SizeOK
INVARIANT RoundTrip
INVARIANT Monotone
CONSTRAINT Emit
CHECK_DEADLOCK FALSE
