\* M: 2-bit units, rejecting setup functions, maxlen raised after construction (as cpu_x86 does), little-endian
CONSTANTS
  U = 2
  Sizes = {1, 2}
  Endians <- ELittle
  LeafMax = 2
  MaxSpecs = 2
  HookVals = {TRUE, FALSE}
  MinW = 3
  CallExtra = 1
  AnyN = 0
  Dev = {}
  Gen = FALSE
INIT Init
NEXT Next
INVARIANT Inv
CHECK_DEADLOCK FALSE
