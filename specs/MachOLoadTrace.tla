----------------------------- MODULE MachOLoadTrace -----------------------------
(***************************************************************************)
(* C15 (Mach-O), code -> spec: memory images recorded from amoco's osx      *)
(* loader validated against Image(file bytes) of MachO.tla.  External       *)
(* symbols may only appear in the pointer sections the file designates for  *)
(* binding: sections of type S_NON_LAZY_SYMBOL_POINTERS (6) and             *)
(* S_LAZY_SYMBOL_POINTERS (7); the name each slot binds is not recomputed   *)
(* here (the dyld bind opcode streams are outside Pe/MachO.tla), so a slot  *)
(* is a relocation entry "with a symbol" whose name is whatever was         *)
(* observed.                                                                *)
(***************************************************************************)
EXTENDS MachO, ImageCheck, Json, IOUtils
Files == ndJsonDeserialize(IOEnv.TRACE_FILE)
VARIABLES tid, done
PtrSects(R) == UNION {{R.cmds[k].sects[j] : j \in {j \in DOMAIN R.cmds[k].sects : R.cmds[k].sects[j].flags[1] \in {6, 7}}}
                       : k \in {k \in DOMAIN R.cmds : IsSeg(R.cmds[k])}}
RECURSIVE SetToSeqOf(_, _)
SetToSeqOf(f, E) == IF E = {} THEN <<>> ELSE LET m == CHOOSE x \in E : \A y \in E : x <= y IN <<f[m]>> \o SetToSeqOf(f, E \ {m})
\* pointer slots of those sections that an observed external symbol occupies (name taken from the observation)
SlotsFor(R, I, exts, aw) ==
  LET E == {e \in DOMAIN exts : \E s \in PtrSects(R) : InD(AddN(I[exts[e].seg + 1].va, exts[e].off), Widen(s.addr, 8), s.size)}
  IN SetToSeqOf([e \in E |-> [a |-> AddN(I[exts[e].seg + 1].va, exts[e].off), sym |-> 1, name |-> exts[e].name]], E)
Init == tid \in 1..Len(Files) /\ done = FALSE
Next == /\ ~done /\ done' = TRUE /\ UNCHANGED tid
        /\ LET f == Files[tid]  b == f.bytes IN
           IF ~IsMachO(b) THEN PrintT(ToJson([t |-> f.t, segs |-> <<>>, pc |-> "NotMachO", fetch |-> "NotMachO", entry |-> <<>>, nslots |-> 0]))
           ELSE LET R == Report(b)  I == Image(b)  aw == AWm(R.is64)
                    ok == \A e \in DOMAIN f.exts : f.exts[e].seg < Len(I)
                    S == IF ok THEN SlotsFor(R, I, f.exts, aw) ELSE <<>> IN
                PrintT(ToJson([t |-> f.t, segs |-> ImageVerdicts(I, f.obs, f.exts, S, aw, <<>>, ""),
                               pc |-> IF f.pc = <<>> THEN "PcNotConstant" ELSE IF EqD(f.pc, R.entry) THEN "ok" ELSE "PcIsNotEntry",
                               fetch |-> IF f.fetch.bytes = <<>> \/ f.fetch.bytes = AtAddr(b, f.fetch.a, Len(f.fetch.bytes)) THEN "ok"
                                         ELSE "FetchedBytesDiffer",
                               entry |-> R.entry, nslots |-> Len(S)]))
=============================================================================
