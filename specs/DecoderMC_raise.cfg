\* a hook may raise a foreign exception after a prefix: NoMemory must be violated (C11 rests on C17) [all inputs of <= 2 tokens, 2 calls]
CONSTANTS
  Alphabet = {"P", "V", "W", "N", "R", "X", "E"}
  MaxLen = 2
  Classes = {"valid", "invalid", "truncated", "rejecting", "raising", "prefix_only", "prefix_truncated", "prefix_invalid", "prefix_valid", "prefix_raising"}
  MaxCalls = 2
  GenHist = FALSE
  RaiseAfterPrefix = TRUE
  Dev = {}
INIT Init
NEXT Next
INVARIANT NoMemory
INVARIANT FunctionalCalls
INVARIANT ConsumesInv
INVARIANT PrefixDeterminedInv
INVARIANT FunctionalInv
CHECK_DEADLOCK FALSE
