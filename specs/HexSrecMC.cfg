\* C14 M (HEX/SREC): RoundTrip and Detect (every single-character substitution of every line) at small scope
CONSTANTS
  Dev = ""
  Fmts = {"hex", "srec"}
  Seeds = {5}
  MaxRecs = 2
  AllowMixed = TRUE
  NCorrupt = 0
  Subst0 = {48, 49, 56, 70, 71, 58, 83}
  WithRelocs = FALSE
  Lens = {0, 1, 3}
INIT Init
NEXT Next
INVARIANT RoundTrip
INVARIANT Detect
CHECK_DEADLOCK FALSE
