\* G (exhaustive): every 8-bit format of at most 2 directives, ALL 256 instruction words, both fetch orders
CONSTANTS
  Lens = {8}
  Dirs = {"<", ">"}
  MaxDirs = 2
  FieldLens = {1, 3, 7}
  Opts = {"", "#"}
  EqLens = {1}
  ByteVals = {47}
  Stars = TRUE
  Classes = {"core"}
  Styles = {"spaced"}
  Sfx = {"none"}
  Slack = 0
  VarMax = 8
  ModRMs = {8, 2, 5}
  Fill = FALSE
  DupNames = FALSE
  Gen = TRUE
  WordMode = "all"
  NRand = 0
  Dev = {}
INIT Init
NEXT Next
CONSTRAINT EmitC
CHECK_DEADLOCK FALSE
