\* behaviour generator (thorough): every history of 4 actions, addresses 0..3, sizes 1..2
CONSTANTS
  MaxAddr = 3
  Sizes = {1, 2}
  MaxOps = 4
  Zones = {"none"}
  Maps = 1
  Shifts = {}
  GenHist = TRUE
  Dev = {}
INIT Init
NEXT Next
CONSTRAINT Emit
CHECK_DEADLOCK FALSE
