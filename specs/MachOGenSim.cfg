\* C14/C15 G (Mach-O): random images (-simulate)
CONSTANTS
  Dev = ""
  Is64s = {TRUE, FALSE}
  Seeds <- SeedRange
  NSects = {0, 1, 2}
  DataKinds = {"none", "eq", "tail"}
  EntryKinds = {"main", "thread"}
  NSyms = {9, 0, 1, 2}
  Extras = {TRUE, FALSE}
  PageZeros = {TRUE, FALSE}
INIT Init
NEXT Next
CONSTRAINT Emit
CHECK_DEADLOCK FALSE
