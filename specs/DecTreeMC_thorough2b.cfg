\* M: leaf threshold lowered to 2 so that 3 specs already recurse; sizes 1..3 units of 1 bit, both fetch orders
CONSTANTS
  U = 1
  Sizes = {1, 2, 3}
  Endians <- EBoth
  LeafMax = 2
  MaxSpecs = 3
  HookVals = {TRUE}
  MinW = 1
  CallExtra = 0
  AnyN = 0
  Dev = {}
  Gen = FALSE
INIT Init
NEXT Next
INVARIANT Inv
CHECK_DEADLOCK FALSE
