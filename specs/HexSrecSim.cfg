\* C14/C15 G (HEX/SREC): random record streams (-simulate) with 8 pseudo-random single-character corruptions each
CONSTANTS
  Dev = ""
  Fmts = {"hex", "srec"}
  Seeds <- SeedRange
  MaxRecs = 6
  AllowMixed = TRUE
  NCorrupt = 8
  Subst0 = {48}
  WithRelocs = FALSE
  Lens = {0, 1, 2, 4, 7, 16, 32}
INIT Init
NEXT Next
CONSTRAINT Emit
CHECK_DEADLOCK FALSE
