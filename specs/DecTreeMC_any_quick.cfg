\* M: every one-level tree over every table of 2 specs: structural clauses imply equivalence with the scan
CONSTANTS
  U = 1
  Sizes = {1, 2}
  Endians <- EBoth
  LeafMax = 5
  MaxSpecs = 2
  HookVals = {TRUE, FALSE}
  MinW = 1
  CallExtra = 0
  AnyN = 2
  Dev = {}
  Gen = FALSE
INIT Init
NEXT Next
INVARIANT AnySound
CHECK_DEADLOCK FALSE
