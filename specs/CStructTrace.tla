---------------------------- MODULE CStructTrace ----------------------------
(***************************************************************************)
(* C16, reference -> spec.  The layout rule of CStruct.tla (SizeOf,        *)
(* AlignOf, Offsets with no deviation) is validated against the C compiler: *)
(* every row of corpus/cabi/cabi.ndjson is one trace of the reference       *)
(* implementation (gcc -m64, and gcc -m32 -malign-double for pointer size   *)
(* 32):  [id, ps, def, size, align, offs].  One verdict per row, total:     *)
(* the first clause that disagrees is named.                                *)
(* ROWS_FILE is the table, LO..HI the rows this run looks at (shards).      *)
(***************************************************************************)
EXTENDS CStruct, IOUtils

Rows == ndJsonDeserialize(IOEnv.ROWS_FILE)
Lo == atoi(IOEnv.ROWS_LO)
Hi == atoi(IOEnv.ROWS_HI)

VARIABLES row, done

Verdict(r) ==
  IF SizeOf(r.def, r.ps, {}) # r.size THEN "SizeOf"
  ELSE IF AlignOf(r.def, r.ps, {}) # r.align THEN "AlignOf"
  ELSE IF Offsets(r.def, r.ps, {}) # r.offs THEN "Offsets"
  ELSE "ok"

TInit == /\ row \in Lo..(IF Hi < Len(Rows) THEN Hi ELSE Len(Rows))
         /\ done = FALSE
         /\ stk = <<>> /\ phase = "trace" /\ psz = 0 /\ vcl = "none" /\ pend = "" /\ img = <<>>
TNext == /\ ~done /\ done' = TRUE
         /\ PrintT(ToJson([t |-> Rows[row].id, ps |-> Rows[row].ps, verdict |-> Verdict(Rows[row])]))
         /\ UNCHANGED <<row, stk, phase, psz, vcl, pend, img>>
=============================================================================
