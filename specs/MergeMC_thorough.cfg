\* C19 M (thorough): repaired merge, prefix <= 1, branches <= 2 operations, widening and threshold
CONSTANTS
  Regs = {"a"}
  Flags = {"f"}
  RB = 2
  Offsets = {0, 1}
  Sizes = {1, 2}
  Kinds = {1, 2}
  PPs = {2}
  MaxPre = 1
  MaxB = 2
  Widen = {FALSE, TRUE}
  Thr = {FALSE, TRUE}
  Conds = {0}
  Q = {}
  Gen = FALSE
INIT Init
NEXT Next
CHECK_DEADLOCK FALSE
INVARIANTS Covers Untouched KeysOK
