\* M, thorough: reduced instance XLEN = 16, 15 register triples, all boundary immediates
CONSTANTS
  XLEN = 16
  NREG = 4
  MEMN = 16
  Dev = {}
  Triples <- TriplesFew
  MCVals <- ValsQuick
  ImmSel = "all"
  GPats = {}
  GVals = {}
  GImms = {}
  GPcs = {}
  GOffs = {}
  GEnum = TRUE
INIT Init
NEXT Next
CONSTRAINT OneStep
INVARIANTS IntSem X0Zero Typed RegFrame MemFrame RoundTrip
CHECK_DEADLOCK FALSE
