\* exhaustive design check (thorough): streams of 1..4 instructions of 1..3 bytes, every n/c flag placement, <= 4 insertions, 1 link, 1 re-insertion
CONSTANTS
  MinN = 1
  MaxN = 4
  Lens = {1, 2, 3}
  Flags = {"n", "c"}
  MaxIns = 4
  MaxLinks = 1
  MaxRe = 1
  Wide = FALSE
  GenHist = FALSE
  Dev = {}
INIT Init
NEXT Next
INVARIANT Disjoint
INVARIANT Covers
INVARIANT FallThrough
INVARIANT NoRaise
INVARIANT NoOverlay
INVARIANT BlocksAreMaximalRuns
CHECK_DEADLOCK FALSE
