\* behaviour generator (quick): streams of 3 instructions of 1..3 units, n/c, every order of the 3 domain blocks
CONSTANTS
  MinN = 3
  MaxN = 3
  Lens = {1, 2, 3}
  Flags = {"n", "c"}
  MaxIns = 3
  MaxLinks = 0
  MaxRe = 0
  Wide = FALSE
  GenHist = TRUE
  Dev = {}
INIT Init
NEXT Next
CONSTRAINT Emit
CHECK_DEADLOCK FALSE
