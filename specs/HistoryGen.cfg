CONSTANTS
  NBlocks = 6
  Regs = {"r1","r2","r3"}
  MaxLen = 3
  Dev = {}
  Gen = TRUE
  MaxOther = 1
INIT Init
NEXT Next
CONSTRAINT Emit
CHECK_DEADLOCK FALSE
