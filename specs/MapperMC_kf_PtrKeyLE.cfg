\* C09 finding: amoco's quirk PtrKeyLE ALONE (everything else repaired) must violate Correct:
\* copies of a map lay big-endian stores out little-endian
CONSTANTS
  Ptrs = {"p", "q"}
  Offs = {0, 1}
  Sizes = {1, 2}
  Deltas <- DeltasSmall
  P0 = 4
  Top = 10
  NAs = {TRUE}
  MTs = {TRUE}
  Ens <- EnsBE
  MInits = {0}
  VKs = {"d"}
  MaxSt = 3
  MaxLd = 0
  MaxLen = 3
  Template <- NoTemplate
  Q = {"PtrKeyLE"}
  Clauses <- AllClauses
  Probe = TRUE
  PvInState = FALSE
  Gen = FALSE
INIT Init
NEXT Next
CHECK_DEADLOCK FALSE
INVARIANTS Correct
