CONSTANTS
  B = 4
  MemSize = 8
  PtrVals = {0,1,2}
  DataInit <- DataSmall
  MaxOps = 3
  Dev = "LostHigh"
  Gen = FALSE
  NoAls = {TRUE,FALSE}
  Endians = {"le","be"}
  Menu = {"regs","ld1","ld2","bump","slice","store","delayed","ext"}
INIT Init
NEXT Next
INVARIANT Lockstep
CHECK_DEADLOCK FALSE
