\* M+G (thorough, exhaustive, variable-length members): packed structures of <= 2 members over B, I, i, s and their terminated / counted / bound / LEB128 forms, bitfield units and typedefs; zero and pattern values
CONSTANTS
  RawT = {"B", "I", "i", "s"}
  ArrN = {2}
  NestN = {2}
  Ords = {""}
  DefOrds = {""}
  DefKinds = {"packed"}
  MaxF = 2
  MaxIF = 0
  MinF = 1
  MaxDepth = 0
  Feat = {"bits", "typedef", "var", "cnt", "bound", "leb"}
  BitSplits <- BitSplitsSmall
  PS = {32}
  VCs = {"zero", "pat", "neg"}
  Stride = 1
  Dev = {}
  Mode = "gen"
INIT Init
NEXT Next
INVARIANT LayoutOK
INVARIANT SizeOK
INVARIANT RoundTrip
INVARIANT Monotone
CONSTRAINT Emit
CHECK_DEADLOCK FALSE
