CONSTANT XLEN = 32
INIT Init
NEXT Next
CHECK_DEADLOCK FALSE
