\* all hypotheses: both traversals agree (region of 4 bytes, windows of 2)
CONSTANTS
  N = 4
  Bytes = {0, 1}
  W = 2
  Ids = {"a", "b"}
  Hyp = {"PrefixDetermined", "Consumes", "Window"}
INIT Init
NEXT Next
INVARIANT Agree
INVARIANT SameReach
INVARIANT InRegion
INVARIANT WindowThm
CHECK_DEADLOCK FALSE
