CONSTANT Devs = {"LtuGeuSigned", "SignedDivFloor"}
INIT Init
NEXT Next
CHECK_DEADLOCK FALSE
