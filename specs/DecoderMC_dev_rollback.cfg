\* self-test: ispec.decode not rolling back bytes on InstructionError must violate FunctionalCalls [all inputs of <= 2 tokens, 2 calls]
CONSTANTS
  Alphabet = {"P", "V", "W", "N", "R", "X"}
  MaxLen = 2
  Classes = {"valid", "invalid", "truncated", "rejecting", "raising", "prefix_only", "prefix_truncated", "prefix_invalid", "prefix_valid", "prefix_raising"}
  MaxCalls = 2
  GenHist = FALSE
  RaiseAfterPrefix = TRUE
  Dev = {"NoRollback"}
INIT Init
NEXT Next
INVARIANT NoMemory
INVARIANT FunctionalCalls
INVARIANT ConsumesInv
INVARIANT PrefixDeterminedInv
INVARIANT FunctionalInv
CHECK_DEADLOCK FALSE
