\* C14/C15 M+G (Mach-O): every image of the small scope (BFS), 32- and 64-bit
CONSTANTS
  Dev = ""
  Is64s = {TRUE, FALSE}
  Seeds = {9}
  NSects = {0, 2}
  DataKinds = {"none", "eq", "tail"}
  EntryKinds = {"main", "thread"}
  NSyms = {9, 2}
  Extras = {TRUE, FALSE}
  PageZeros = {TRUE, FALSE}
INIT Init
NEXT Next
CONSTRAINT Emit
CHECK_DEADLOCK FALSE
