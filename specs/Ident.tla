-------------------------------- MODULE Ident --------------------------------
(***************************************************************************)
(* C20 - program identification (amoco/system/core.py: read_program) is    *)
(* total and reports only format errors.                                   *)
(*                                                                         *)
(* A behaviour of this module is: pick an input (a base file whose         *)
(* reference truth is known), damage it zero or more times (Corrupt), then *)
(* run the fallback chain  ELF -> PE -> Mach-O -> COFF -> HEX -> SREC ->   *)
(* raw  on it, one action per try/except block of read_program.            *)
(*                                                                         *)
(* The six parsers are the ENVIRONMENT of the chain. What the chain may    *)
(* rely on is written down as a contract (Guaranteed): a parser accepts a  *)
(* valid file of its own format, rejects - with its own error type or the  *)
(* structs layer's StructureError - every valid file of a format that is   *)
(* tried LATER in the canonical order, and promises nothing else (COFF has *)
(* no magic number; it comes after ELF/PE/Mach-O for that reason). A       *)
(* parser that is started with the file cursor not at 0 promises nothing.  *)
(* RaiseForeign, Timeout and Exhaust are NOT actions of the design: they   *)
(* only exist under a seeded fault (Dev), and every property below must    *)
(* then fail - this is how the checking configs prove non-vacuity.         *)
(*                                                                         *)
(* Three uses (DESIGN.md section 2):                                       *)
(*  M  IdentMC*.cfg     Mode="mc": abstract inputs (truth only), TLC checks *)
(*                      Total, OwnErrorsOnly, NoMisclaim, CursorReset and   *)
(*                      termination of the chain; IdentMC_dev_*.cfg: each   *)
(*                      seeded fault is rejected.                           *)
(*  G  IdentGen.cfg     Mode="gen": the inputs are the corpus bases         *)
(*                      (corpus/ident/bases.ndjson) and Corrupt carries a   *)
(*                      concrete fault; TLC enumerates the fault space per  *)
(*                      FIELD of every header table / per truncation class  *)
(*                      and prints every input descriptor with the truth    *)
(*                      the chain must respect; harness/c20.py concretises  *)
(*                      and runs read_program on each.                      *)
(*  T  IdentTrace.tla   the recorded chains are replayed through Outcomes / *)
(*                      StageStep below (same definitions).                 *)
(***************************************************************************)
EXTENDS Naturals, Sequences, FiniteSets, TLC, Json, IOUtils

CONSTANTS Dev,    \* set of seeded faults; {} is the design as read from system/core.py:455-541
          Mode    \* "mc" | "gen"

VARIABLES base,   \* gen: index in Bases (0 = no base: random string); mc: 0
          ops,    \* sequence of faults applied to the base
          truth,  \* reference truth of the input: a format, "none" (valid file of no format) or "any" (damaged)
          st      \* state of the chain: [stage, cur, chain, res]
vars == <<base, ops, truth, st>>

-----------------------------------------------------------------------------
(* The chain, as pure operators (shared with IdentTrace)                    *)

Canon   == <<"ELF", "PE", "MachO", "COFF", "HEX", "SREC">>
Formats == {Canon[i] : i \in 1..6}
Binary  == {"ELF", "PE", "MachO", "COFF"}     \* built on amoco.system.structs: StructureError possible
Stream  == {"HEX", "SREC"}                    \* read lines from the file cursor (f.readlines())
Pos(f)  == CHOOSE i \in 1..6 : Canon[i] = f

Own(f) == CASE f = "ELF"   -> "ElfError"
            [] f = "PE"    -> "PEError"
            [] f = "MachO" -> "MachOError"
            [] f = "COFF"  -> "COFFError"
            [] f = "HEX"   -> "HEXError"
            [] f = "SREC"  -> "SRECError"

(* the order in which read_program tries the formats                        *)
Order(dev) == IF "CoffFirst" \in dev THEN <<"COFF", "ELF", "PE", "MachO", "HEX", "SREC">>
              ELSE IF "HexFirst" \in dev THEN <<"HEX", "ELF", "PE", "MachO", "COFF", "SREC">>
              ELSE Canon

(* what a format may legitimately report malformed content with             *)
Rejections(f) == IF f \in Binary THEN {Own(f), "StructureError"} ELSE {Own(f)}

(* what read_program's except clause of stage f catches                     *)
Catches(f, dev) == IF f = "ELF" /\ "NarrowExcept" \in dev THEN {"ElfError"} ELSE Rejections(f)

(* Parser contract: outcomes parser f may produce on an input of reference  *)
(* truth tr when started with the cursor at cur (0 = start of file).        *)
Guaranteed(f, tr, cur) ==
  IF cur # 0 THEN {"accept"} \cup Rejections(f)
  ELSE IF tr = f THEN {"accept"}
  ELSE IF tr \in Formats /\ Pos(tr) > Pos(f) THEN Rejections(f)
  ELSE {"accept"} \cup Rejections(f)

Exhaustions == {"MemoryError", "RecursionError"}

Faulty(dev) == (IF "ForeignParser" \in dev THEN {"TypeError"} ELSE {})
          \cup (IF "HangParser" \in dev THEN {"hang"} ELSE {})
          \cup (IF "HungryParser" \in dev THEN {"MemoryError"} ELSE {})

Outcomes(f, tr, cur, dev) == Guaranteed(f, tr, cur) \cup Faulty(dev)

Pending == [k |-> "pending", v |-> "-"]
S0 == [stage |-> 1, cur |-> 0, chain |-> <<>>, res |-> Pending]

(* One try/except block of read_program: parser f produced outcome o and    *)
(* left the cursor moved or not.                                            *)
StageStep(s, f, o, moved, dev) ==
  IF o = "accept" THEN [s EXCEPT !.res = [k |-> "accept", v |-> f]]                     \* Accept(f)
  ELSE IF o = "hang" THEN [s EXCEPT !.res = [k |-> "timeout", v |-> f]]                 \* Timeout
  ELSE IF o \in Exhaustions THEN [s EXCEPT !.res = [k |-> "exhaust", v |-> o]]          \* Exhaust
  ELSE IF o \in Catches(f, dev)                                                         \* RejectOwn(f)
       THEN LET c == IF moved /\ "NoSeek" \in dev THEN 1 ELSE 0 IN                      \*   f.seek(0)
            [s EXCEPT !.stage = @ + 1, !.cur = c,
                      !.chain = Append(@, [f |-> f, e |-> o, cur |-> c])]
  ELSE [s EXCEPT !.res = [k |-> "raise", v |-> o]]                                      \* RaiseForeign

RawStep(s) == [s EXCEPT !.res = [k |-> "raw", v |-> "raw"]]                             \* shellcode(f)

Done(s) == s.res.k # "pending"

-----------------------------------------------------------------------------
(* The properties (C20's statement), as predicates on a chain state         *)

Total(s)         == Done(s) => s.res.k \in {"accept", "raw"}
OwnErrorsOnly(s) == /\ s.res.k # "raise"
                    /\ \A i \in 1..Len(s.chain) : s.chain[i].e \in Rejections(s.chain[i].f)
NoMisclaim(s, tr) == (Done(s) /\ tr \in Formats) => s.res = [k |-> "accept", v |-> tr]
CursorReset(s)   == s.cur = 0

-----------------------------------------------------------------------------
(* Implementation-shaped (drift level, never the property): the gate each   *)
(* parser with a magic number applies before anything else. h = first bytes *)
(* of the input, g = the four bytes at e_lfanew when the input starts with  *)
(* "MZ". elf.py:477 (IDENT.unpack), pe.py:327/351 (DOSHdr, COFFHdr),        *)
(* macho.py:96-103. COFF, HEX and SREC have no magic number.                *)
MagicOK(f, h, g) ==
  CASE f = "ELF"   -> Len(h) >= 4 /\ SubSeq(h, 1, 4) = <<127, 69, 76, 70>>
    [] f = "PE"    -> Len(h) >= 2 /\ SubSeq(h, 1, 2) = <<77, 90>> /\ g = <<80, 69, 0, 0>>
    [] f = "MachO" -> Len(h) >= 4 /\ SubSeq(h, 1, 4) \in {<<206, 250, 237, 254>>, <<207, 250, 237, 254>>,
                                                          <<202, 254, 186, 190>>}
    [] OTHER       -> TRUE

-----------------------------------------------------------------------------
(* G: the fault space over the corpus                                       *)

Bases == ndJsonDeserialize(IOEnv.IDENT_BASES)
P     == ndJsonDeserialize(IOEnv.IDENT_PARAMS)[1]
   \* The fault space is a FIXED, seed-independent universe U; the thorough tier runs all of it, the quick tier a
   \* subset of it chosen by the seed (so a seed can never reach an input the thorough tier does not run).
   \* universe: utarget / ubigtarget = field faults per base (0 = all; bases above biglen bytes cost more per run),
   \*           a base with more is strided from index 0; bases of at most alllen bytes are never strided and get
   \*           every truncation length; nflip flips per kind (the first flipk kinds), nrand strings per class (both drawn by a rng that
   \*           depends on the descriptor only); maxfaults = 1 (single faults) | 2 (pairs)
   \* subset:   qtarget / qbigtarget (0 = the whole universe), qalllen <= alllen, qflip <= nflip, qrand <= nrand,
   \*           psub (pairs: one of every psub), phase (= the seed); sel = sequence of base ids

Op(k, o, n, be, c, i, nm) == [k |-> k, o |-> o, n |-> n, be |-> be, c |-> c, i |-> i, nm |-> nm]

(* value classes of a binary field (concretised by the replayer):           *)
(* 0, 1, all-ones, largest positive, smallest negative, a large but         *)
(* plausible value, original+1, original-1, and - as huge/off-by-one        *)
(* offsets - the file length, one less, one more                            *)
BinClasses  == <<"zero", "one", "max", "maxpos", "minneg", "hi", "inc", "dec", "flen", "flenm1", "flenp1">>
(* value classes of a field of hex digits in a text record; "+fix" also     *)
(* recomputes the record checksum so that the damage reaches the parser     *)
TextClasses == <<"zero", "one", "max", "inc", "dec", "nonhex", "lower", "empty",
                 "zero+fix", "one+fix", "max+fix", "inc+fix", "dec+fix">>
ClassesOf(b) == IF Bases[b].kind = "text" THEN TextClasses ELSE BinClasses

Big(b)     == Bases[b].len > P.biglen
NOps(b)    == Bases[b].nf * Len(ClassesOf(b))
UStride(b) == LET t == IF Big(b) THEN P.ubigtarget ELSE P.utarget IN
              IF t = 0 \/ Bases[b].len <= P.alllen THEN 1
              ELSE LET q == NOps(b) \div t IN IF q < 1 THEN 1 ELSE q
QTarget(b) == IF Big(b) THEN P.qbigtarget ELSE P.qtarget
QStride(b) == IF QTarget(b) = 0 \/ Bases[b].len <= P.qalllen THEN 1
              ELSE LET q == (NOps(b) \div UStride(b)) \div QTarget(b) IN IF q < 1 THEN 1 ELSE q
InU(b, x)  == x % UStride(b) = 0                                             \* in the universe
Keep(b, x) == InU(b, x) /\ ((x \div UStride(b)) % QStride(b)) = (P.phase % QStride(b))   \* ... and in this run
Picked(n, q) == { ((P.phase + k) % n) + 1 : k \in 0..(q - 1) }              \* q of the indices 1..n

SetOps(b) ==
  LET R == Bases[b].regions C == ClassesOf(b) IN
  UNION { UNION { { Op("set", R[ri].o + R[ri].f[fi][2], R[ri].f[fi][3], R[ri].be, C[ci], 0,
                       R[ri].n \o "." \o R[ri].f[fi][1])
                    : ci \in {c \in 1..Len(C) : Keep(b, ri * 31 + fi * 7 + c)} }
                  : fi \in 1..Len(R[ri].f) }
          : ri \in 1..Len(R) }

TruncLens(b) ==
  LET R == Bases[b].regions n == Bases[b].len IN
  (IF n <= P.qalllen THEN 0..(n - 1) ELSE {})
  \cup { (n * k) \div 16 : k \in {x \in 1..15 : QTarget(b) = 0 \/ x % 4 = P.phase % 4} } \cup { n - 1 }
  \cup UNION { UNION { {R[ri].o + R[ri].f[fi][2], R[ri].o + R[ri].f[fi][2] + 1}
                       : fi \in {x \in 1..Len(R[ri].f) : Keep(b, ri * 31 + x * 7)} }
               : ri \in 1..Len(R) }
  \cup { R[ri].o + R[ri].s - 1 : ri \in {x \in 1..Len(R) : Keep(b, x * 31)} }

TruncOps(b) == { Op("trunc", 0, l, 0, "-", 0, "-") : l \in {x \in TruncLens(b) : x < Bases[b].len} }

FlipKinds == << <<1, "tables">>, <<4, "head64">>, <<2, "tables">>, <<1, "head64">>, <<4, "tables">>, <<2, "head512">>,
               <<1, "any">>, <<4, "any">>, <<1, "head512">>, <<2, "head64">>, <<4, "head512">>, <<2, "any">> >>
FlipOps(b) == { Op("flip", 0, FlipKinds[k][1], 0, FlipKinds[k][2], i, "-") :
                  k \in 1..P.flipk, i \in Picked(P.nflip, P.qflip) }

RandFlavours == {"bytes", "ascii", "hexrec", "srec", "magicELF32", "magicELF64", "magicMZ", "magicMachO32",
                 "magicMachO64", "magicFat", "coffish"}
RandLens     == {0, 1, 2, 3, 4, 7, 8, 15, 16, 20, 21, 40, 52, 64, 65, 128, 300, 1000}
RandOps == { Op("rand", 0, n, 0, fl, i, "-") : fl \in RandFlavours, n \in RandLens, i \in Picked(P.nrand, P.qrand) }

(* bases flagged intact = 1 (the generated HEX/SREC size family) are only run undamaged: they exist for NoMisclaim *)
FaultOps(b) == IF b = 0 THEN RandOps
               ELSE IF Bases[b].intact = 1 THEN {}
               ELSE SetOps(b) \cup TruncOps(b) \cup FlipOps(b)

TruthOf(b, o) == IF b > 0 /\ o = <<>> THEN Bases[b].truth ELSE "any"

Emit == (Mode = "gen") => PrintT(ToJson([b |-> base, ops |-> ops, truth |-> truth]))

-----------------------------------------------------------------------------
(* The state machine                                                        *)

MaxFaultsMC == 1

(* gen: the fault sequences of a base. They are drawn in Init - all of them as initial states - because TLC does  *)
(* not memoise FaultOps(b) between states: drawn by successive Corrupt steps the set would be rebuilt per state.   *)
OpHash(x) == x.o + 7 * x.n + 13 * x.i
PairHash(x, z) == (((OpHash(x) % 9973) * 211 + (OpHash(z) % 9973) * 389) % 9973)   \* offsets are mostly multiples of 4:
                                                                                 \* mix modulo a prime before striding
FaultSeqs(b) ==
  LET F == FaultOps(b) IN
  IF P.maxfaults = 1
  THEN (IF b > 0 THEN {<<>>} ELSE {}) \cup { <<x>> : x \in F }
  ELSE { <<x>> : x \in F }            \* the atoms of the pairs, alone (all of them, whatever the seed)
       \cup UNION { { <<x, y>> : y \in {z \in F : PairHash(x, z) % P.psub = P.phase % P.psub} }
                    : x \in F }

Init == /\ st = S0
        /\ IF Mode = "gen"
           THEN /\ base \in {P.sel[i] : i \in 1..Len(P.sel)}
                /\ ops \in FaultSeqs(base)
                /\ truth = TruthOf(base, ops)
           ELSE /\ base = 0
                /\ ops = <<>>
                /\ truth \in Formats \cup {"none"}

(* mc: damage the input: whatever it was, nothing is known about it afterwards *)
Corrupt ==
  /\ Mode = "mc"
  /\ st = S0
  /\ Len(ops) < MaxFaultsMC
  /\ ops' = Append(ops, "fault")
  /\ truth' = "any"
  /\ UNCHANGED <<base, st>>

(* one stage of the chain *)
Stage ==
  /\ Mode = "mc"
  /\ ~Done(st) /\ st.stage <= 6
  /\ LET f == Order(Dev)[st.stage] IN
     \E o \in Outcomes(f, truth, st.cur, Dev), moved \in BOOLEAN :
        st' = StageStep(st, f, o, moved, Dev)
  /\ UNCHANGED <<base, ops, truth>>

Raw ==
  /\ Mode = "mc"
  /\ ~Done(st) /\ st.stage = 7
  /\ st' = RawStep(st)
  /\ UNCHANGED <<base, ops, truth>>

Next == Corrupt \/ Stage \/ Raw

Spec == Init /\ [][Next]_vars /\ WF_vars(Stage \/ Raw)

-----------------------------------------------------------------------------
InvTotal         == Total(st)
InvOwnErrorsOnly == OwnErrorsOnly(st)
InvNoMisclaim    == NoMisclaim(st, truth)
InvCursorReset   == CursorReset(st)
InvShape         == /\ st.stage \in 1..7
                    /\ Len(st.chain) = st.stage - 1
                    /\ \A i \in 1..Len(st.chain) : st.chain[i].f = Order(Dev)[i]
                    /\ (st.res.k = "raw") => st.stage = 7
Terminates       == <>Done(st)
=============================================================================
