CONSTANTS
  NBlocks = 6
  Regs = {"r1","r2","r3"}
  MaxLen = 5
  Dev = {}
  Gen = TRUE
  MaxOther = 2
INIT Init
NEXT Next
CONSTRAINT Emit
CHECK_DEADLOCK FALSE
