\* Window not assumed: it follows from PrefixDetermined and Consumes (WindowThm), agreement still holds
CONSTANTS
  N = 3
  Bytes = {0, 1}
  W = 2
  Ids = {"a", "b"}
  Hyp = {"PrefixDetermined", "Consumes"}
INIT Init
NEXT Next
INVARIANT Agree
INVARIANT SameReach
INVARIANT InRegion
INVARIANT WindowThm
CHECK_DEADLOCK FALSE
