\* behaviour generator (simulation): streams of up to 10 unit-length instructions, n/c/d, 6 insertions, 3 links, 1 re-insertion
CONSTANTS
  MinN = 4
  MaxN = 10
  Lens = {1}
  Flags = {"n", "c", "d"}
  MaxIns = 6
  MaxLinks = 3
  MaxRe = 1
  Wide = FALSE
  GenHist = TRUE
  Dev = {}
INIT Init
NEXT Next
CONSTRAINT Emit
CHECK_DEADLOCK FALSE
