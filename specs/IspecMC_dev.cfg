\* self-test: a buildspec that forgets to rewind after an overlay in a "<" format must violate DocImpl
CONSTANTS
  Lens = {8, 0}
  Dirs = {"<", ">"}
  MaxDirs = 3
  FieldLens = {1, 4}
  Opts = {"", "#"}
  EqLens = {1, 2}
  ByteVals = {47}
  Stars = TRUE
  Classes = {"core"}
  Styles = {"spaced"}
  Sfx = {"none"}
  Slack = 3
  VarMax = 8
  ModRMs = {8, 2, 5}
  Fill = FALSE
  DupNames = FALSE
  Gen = FALSE
  WordMode = "boundary"
  NRand = 0
  Dev = {"EqNoRewindDown"}
INIT Init
NEXT Next
INVARIANT DocImpl
CHECK_DEADLOCK FALSE
