\* M: X86.tla against integer arithmetic / BitVec on small instances
CONSTANTS
  Fault = "none"
  Vals8 = {0, 1, 7, 8, 15, 16, 85, 127, 128, 129, 200, 255}
  Limbs16 <- LimbPool
INIT Init
NEXT Next
INVARIANTS Flags8 FastMul Limbs SubReg CondTable DivRel
CHECK_DEADLOCK FALSE
