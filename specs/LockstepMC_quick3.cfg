CONSTANTS
  B = 4
  MemSize = 7
  PtrVals = {0,1}
  DataInit <- DataSmall
  MaxOps = 3
  Dev = "none"
  Gen = FALSE
  NoAls = {TRUE,FALSE}
  Endians = {"le","be"}
  Menu = {"regs","ld2","bump","slice","store","delayed"}
INIT Init
NEXT Next
INVARIANT Lockstep
CHECK_DEADLOCK FALSE
