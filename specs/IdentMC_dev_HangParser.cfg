\* self-test: the seeded fault HangParser must be rejected (INVARIANT InvTotal)
CONSTANTS
  Dev = {"HangParser"}
  Mode = "mc"
SPECIFICATION Spec
INVARIANT InvTotal
CHECK_DEADLOCK FALSE
