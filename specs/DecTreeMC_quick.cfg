\* M: every table of up to 4 specs over 1-bit units (sizes 1 and 2 units), both fetch orders, leaf threshold 3 (thorough: the real 5)
CONSTANTS
  U = 1
  Sizes = {1, 2}
  Endians <- EBoth
  LeafMax = 3
  MaxSpecs = 4
  HookVals = {TRUE}
  MinW = 1
  CallExtra = 0
  AnyN = 0
  Dev = {}
  Gen = FALSE
INIT Init
NEXT Next
INVARIANT Inv
CHECK_DEADLOCK FALSE
