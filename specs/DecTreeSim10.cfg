\* G (simulation): tables of 10 specs over 2-bit units, heavy masks (deep trees), both fetch orders, rejecting hooks
CONSTANTS
  U = 2
  Sizes = {2}
  Endians <- ELittle
  LeafMax = 5
  MaxSpecs = 10
  HookVals = {TRUE, FALSE}
  MinW = 3
  CallExtra = 2
  AnyN = 0
  Dev = {}
  Gen = TRUE
INIT Init
NEXT Next
CONSTRAINT EmitC
CHECK_DEADLOCK FALSE
