\* C09 M (thorough): repaired design, sizes {1,2,4}, offsets {0,1,2}, q - p in -6..6, <= 3 stores, every next load
CONSTANTS
  Ptrs = {"p", "q"}
  Offs = {0, 1, 2}
  Sizes = {1, 2, 4}
  Deltas <- DeltasMid
  P0 = 6
  Top = 18
  NAs = {FALSE}
  MTs = {TRUE}
  Ens <- EnsBoth
  MInits = {0}
  VKs = {"d"}
  MaxSt = 3
  MaxLd = 0
  MaxLen = 3
  Template <- NoTemplate
  Q = {}
  Clauses <- AllClauses
  Probe = TRUE
  PvInState = FALSE
  Gen = FALSE
INIT Init
NEXT Next
CHECK_DEADLOCK FALSE
INVARIANTS Correct
