\* C14/C15 M+G (PE): every header set of the small scope (BFS): PE32 and PE32+, 0..2 sections of every raw-size kind
CONSTANTS
  Dev = ""
  Pluses = {TRUE, FALSE}
  Seeds = {3}
  MaxSec = 2
  DirCounts = {0, 16}
  OptPads = {0, 8}
  Aligns = {16}
  RawKinds = {"pad", "eq", "short", "none"}
INIT Init
NEXT Next
CONSTRAINT Emit
CHECK_DEADLOCK FALSE
