\* C09 G (-simulate): programs of the shape  load r; store x; store r (the LOADED value, through another pointer);
\* store y; load  - three pointers, aliasing allowed, both endiannesses, initial memory in the start state or not
CONSTANTS
  Ptrs = {"p", "q", "s"}
  Offs = {0, 1, 2}
  Sizes = {1, 2, 4}
  Deltas <- DeltasSmall
  P0 = 6
  Top = 16
  NAs = {FALSE}
  MTs = {TRUE}
  Ens <- EnsBoth
  MInits = {0, 1}
  VKs = {"d", "c", "r"}
  MaxSt = 3
  MaxLd = 2
  MaxLen = 5
  Template <- Reload
  Q = {}
  Clauses <- AllClauses
  Probe = FALSE
  PvInState = TRUE
  Gen = TRUE
INIT Init
NEXT Next
CHECK_DEADLOCK FALSE
CONSTRAINT Emit
