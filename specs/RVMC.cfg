\* M, quick: reduced instance XLEN = 8, four registers, 16 bytes of memory; one instruction from every initial state
CONSTANTS
  XLEN = 8
  NREG = 4
  MEMN = 16
  Dev = {}
  Triples <- TriplesQuick
  MCVals <- ValsQuick
  ImmSel = "few"
  GPats = {}
  GVals = {}
  GImms = {}
  GPcs = {}
  GOffs = {}
  GEnum = TRUE
INIT Init
NEXT Next
CONSTRAINT OneStep
INVARIANTS IntSem X0Zero Typed RegFrame MemFrame RoundTrip
CHECK_DEADLOCK FALSE
