\* C19 M (quick): the repaired merge covers both maps, every pair of branches of <= 2 operations
\* (one register, one flag, memory p+{0,1} sizes {1,2}, two value kinds)
CONSTANTS
  Regs = {"a"}
  Flags = {"f"}
  RB = 2
  Offsets = {0, 1}
  Sizes = {1, 2}
  Kinds = {1, 2}
  PPs = {}
  MaxPre = 0
  MaxB = 2
  Widen = {FALSE}
  Thr = {FALSE}
  Conds = {0}
  Q = {}
  Gen = FALSE
INIT Init
NEXT Next
CHECK_DEADLOCK FALSE
INVARIANTS Covers Untouched KeysOK
