-------------------------------- MODULE MachORef --------------------------------
(***************************************************************************)
(* C14 / C15 (Mach-O), reference binding and sample traces (cf. ElfRef).   *)
(* ref = what LLVM's Mach-O readers (obj2yaml, llvm-readobj, llvm-objdump) *)
(* report: hdr, cmds [cmd (<<>> if the name is not in the table), cmdsize, *)
(* kind-specific fields], syms.  Numbers as digits, names as code points.  *)
(***************************************************************************)
EXTENDS MachO, Json, IOUtils
Files == ndJsonDeserialize(IOEnv.TRACE_FILE)
VARIABLES tid, done

Name16OK(d, t) == d = Widen(t, 16)
FieldsOK(r, ref, names) == \A n \in names : EqD(r[n], ref[n])
SegNames == {"vmaddr", "vmsize", "fileoff", "filesize", "maxprot", "initprot", "nsects", "flags"}
SectNames == {"addr", "size", "offset", "align", "reloff", "nreloc", "flags", "reserved1", "reserved2"}
CmdBad(r, c) ==            \* "" or what differs
  IF ~EqD(r.cmdsize, c.cmdsize) THEN "cmdsize"
  ELSE IF c.cmd # <<>> /\ ~EqD(r.cmd, c.cmd) THEN "cmd"
  ELSE IF c.kind = "seg" THEN
         IF ~IsSeg(r) THEN "kind" ELSE IF ~Name16OK(r.f.segname, c.seg.segname) THEN "segname"
         ELSE IF ~FieldsOK(r.f, c.seg, SegNames) THEN "segment fields"
         ELSE IF Len(r.sects) # Len(c.sects) THEN "section count"
         ELSE IF \E j \in DOMAIN c.sects : ~(Name16OK(r.sects[j].sectname, c.sects[j].sectname) /\ Name16OK(r.sects[j].segname, c.sects[j].segname)
                                            /\ FieldsOK(r.sects[j], c.sects[j], SectNames)) THEN "section fields"
         ELSE ""
  ELSE IF c.kind = "main" THEN (IF r.kind = "main" /\ EqD(r.f.entryoff, c.entryoff) THEN "" ELSE "entryoff")
  ELSE IF c.kind = "thread" THEN (IF r.kind = "thread" /\ EqD(r.f.pc, c.pc) THEN "" ELSE "thread pc")
  ELSE ""
Verdict(R, ref) ==
  IF R.is64 # ref.is64 THEN "magic"
  ELSE IF \E n \in DOMAIN ref.hdr : ~EqD(R.hdr[n], ref.hdr[n]) THEN "header." \o (CHOOSE n \in DOMAIN ref.hdr : ~EqD(R.hdr[n], ref.hdr[n]))
  ELSE IF Len(R.cmds) # Len(ref.cmds) THEN "cmds.count"
  ELSE IF \E k \in DOMAIN ref.cmds : CmdBad(R.cmds[k], ref.cmds[k]) # ""
       THEN LET k == CHOOSE k \in DOMAIN ref.cmds : CmdBad(R.cmds[k], ref.cmds[k]) # "" IN
            "cmd[" \o ToString(k - 1) \o "]." \o CmdBad(R.cmds[k], ref.cmds[k])
  ELSE IF Len(R.syms) # Len(ref.syms) THEN "symtab.count"
  ELSE IF \E k \in DOMAIN ref.syms : ~(R.syms[k].name = ref.syms[k].name /\ FieldsOK(R.syms[k], ref.syms[k], {"n_strx", "n_type", "n_sect", "n_desc", "n_value"}))
       THEN "symtab[" \o ToString((CHOOSE k \in DOMAIN ref.syms : ~(R.syms[k].name = ref.syms[k].name /\ FieldsOK(R.syms[k], ref.syms[k], {"n_strx", "n_type", "n_sect", "n_desc", "n_value"}))) - 1) \o "]"
  ELSE "ok"

RECURSIVE SeqOfSet(_)
SeqOfSet(S) == IF S = {} THEN <<>> ELSE LET m == CHOOSE x \in S : TRUE IN <<m>> \o SeqOfSet(S \ {m})
QueryAddrs(R) == (IF R.entry = <<>> THEN {} ELSE {R.entry}) \cup
  UNION {LET s == R.cmds[k].f IN {Widen(s.vmaddr, 8), AddD(Widen(s.vmaddr, 8), SubD(s.filesize, <<1>>)), AddD(Widen(s.vmaddr, 8), s.filesize),
                                  AddD(Widen(s.vmaddr, 8), SubD(s.vmsize, <<1>>)), AddD(Widen(s.vmaddr, 8), s.vmsize)}
            : k \in {k \in DOMAIN R.cmds : IsSeg(R.cmds[k]) /\ Loadable(R.cmds[k])}}
  \cup UNION {UNION {LET c == R.cmds[k].sects[j] IN {Widen(c.addr, 8), AddD(Widen(c.addr, 8), SubD(c.size, <<1>>)), AddD(Widen(c.addr, 8), c.size)}
                       : j \in DOMAIN R.cmds[k].sects} : k \in {k \in DOMAIN R.cmds : IsSeg(R.cmds[k])}}

Init == tid \in 1..Len(Files) /\ done = FALSE
Next == /\ ~done /\ done' = TRUE /\ UNCHANGED tid
        /\ LET f == Files[tid]  b == f.bytes IN
           IF ~IsMachO(b) THEN PrintT(ToJson([t |-> f.t, verdict |-> "NotMachO"]))
           ELSE LET R == Report(b)  Q == SeqOfSet(QueryAddrs(R)) IN
                PrintT(ToJson([t |-> f.t, verdict |-> IF f.hasref THEN Verdict(R, f.ref) ELSE "noref", expect |-> R,
                               queries |-> Tup([k \in 1..Len(Q) |-> Query(R, Q[k])])]))
=============================================================================
