\* M+G (thorough, 1 case in 2 of the exhaustive enumeration - residue class chosen by the seed, nested depth 1): <= 2 members, each a byte, a short, a pointer or a nested definition of <= 2 such members (alone or as an array of 2), both pointer sizes
CONSTANTS
  RawT = {"B", "h", "P"}
  ArrN = {}
  NestN = {2}
  Ords = {""}
  DefOrds = {""}
  DefKinds = {"struct", "packed", "union"}
  MaxF = 2
  MaxIF = 2
  MinF = 1
  MaxDepth = 1
  Feat = {"nestarr"}
  BitSplits <- BitSplitsNone
  PS = {32, 64}
  VCs = {"pat"}
  Stride = 2
  Dev = {}
  Mode = "gen"
INIT Init
NEXT Next
INVARIANT LayoutOK
INVARIANT SizeOK
INVARIANT RoundTrip
INVARIANT Monotone
CONSTRAINT Emit
CHECK_DEADLOCK FALSE
