CONSTANT XLEN = 64
INIT Init
NEXT Next
CHECK_DEADLOCK FALSE
