\* exhaustive: every binary operator call on the leaves followed by every slice of its result (+ simplify), widths 2..3
CONSTANTS
  Widths = {2, 3}
  MaxSteps = 2
  MaxW = 8
  FreshOnly = TRUE
  Ops = {"bin", "slice"}
  Shape <- ShapeBinSlice
  LeafSet = {}
  AutoSimp = TRUE
  MapSpan = 6
  MapSrc = {}
  Rand = FALSE
INIT Init
NEXT Next
CHECK_DEADLOCK FALSE
