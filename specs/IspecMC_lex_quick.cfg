\* M (lexical): every rendering style / suffix / class parses back to the token list
CONSTANTS
  Lens = {16, 0}
  Dirs = {"<", ">"}
  MaxDirs = 2
  FieldLens = {1, 4, 12}
  Opts = {"", ".", "~", "#"}
  EqLens = {1}
  ByteVals = {160}
  Stars = TRUE
  Classes = {"core", "x86"}
  Styles = {"spaced", "tight", "odd"}
  Sfx = {"none", "prefix", "xdata", "both"}
  Slack = 8
  VarMax = 16
  ModRMs = {8, 5}
  Fill = FALSE
  DupNames = FALSE
  Gen = FALSE
  WordMode = "boundary"
  NRand = 0
  Dev = {}
INIT Init
NEXT Next
INVARIANT RoundTrip
CHECK_DEADLOCK FALSE
