\* M+G (thorough, 1 case in 2 of the exhaustive enumeration - residue class chosen by the seed, flat): <= 4 members over the size classes 1, 2, 8, pointer; scalars and arrays of 2; both pointer sizes
CONSTANTS
  RawT = {"B", "h", "q", "P"}
  ArrN = {2}
  NestN = {2}
  Ords = {""}
  DefOrds = {""}
  DefKinds = {"struct", "packed", "union"}
  MaxF = 4
  MaxIF = 0
  MinF = 1
  MaxDepth = 0
  Feat = {}
  BitSplits <- BitSplitsNone
  PS = {32, 64}
  VCs = {"pat"}
  Stride = 2
  Dev = {}
  Mode = "gen"
INIT Init
NEXT Next
INVARIANT LayoutOK
INVARIANT SizeOK
INVARIANT RoundTrip
INVARIANT Monotone
CONSTRAINT Emit
CHECK_DEADLOCK FALSE
