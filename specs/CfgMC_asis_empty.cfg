\* the code as it is today, deviations FirstBlockSwallow + EmptyOldEdge: TLC must find NoRaise violated (a block starting in a delay slot)
CONSTANTS
  MinN = 3
  MaxN = 3
  Lens = {1}
  Flags = {"n", "d"}
  MaxIns = 3
  MaxLinks = 0
  MaxRe = 0
  Wide = FALSE
  GenHist = FALSE
  Dev = {"FirstBlockSwallow", "EmptyOldEdge"}
INIT Init
NEXT Next
INVARIANT Disjoint
INVARIANT Covers
INVARIANT FallThrough
INVARIANT NoRaise
INVARIANT NoOverlay
INVARIANT BlocksAreMaximalRuns
CHECK_DEADLOCK FALSE
