\* G (simulation): the whole definition language: every raw type, arrays, byte orders, order= keyword,
\* nesting depth 2, struct / packed / union, typedefs, bitfield units, terminated / counted / bound /
\* LEB128 members, both pointer sizes, three value classes (quick tier). Run with -simulate num=N -depth 60.
CONSTANTS
  RawT = {"c", "b", "B", "s", "h", "H", "i", "I", "f", "l", "L", "P", "q", "Q", "d"}
  ArrN = {1, 2, 3}
  NestN = {1, 2, 3}
  Ords = {"", "<", ">"}
  DefOrds = {"", ">"}
  DefKinds = {"struct", "packed", "union"}
  MaxF = 4
  MaxIF = 3
  MinF = 1
  MaxDepth = 2
  Feat = {"bits", "typedef", "nestarr", "vararr", "var", "cnt", "bound", "leb"}
  BitSplits <- BitSplitsFull
  PS = {32, 64}
  VCs = {"zero", "pat", "neg"}
  Stride = 1
  Dev = {}
  Mode = "gen"
INIT Init
NEXT Next
INVARIANT RoundTrip
CONSTRAINT Emit
CHECK_DEADLOCK FALSE
