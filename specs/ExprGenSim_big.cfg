\* simulation, realistic widths up to 128 bits (256 for widening multiply)
CONSTANTS
  Widths = {7, 8, 15, 16, 31, 32, 33, 63, 64, 65, 127, 128}
  MaxSteps = 5
  MaxW = 256
  FreshOnly = FALSE
  Ops = {"bin", "un", "slice", "compose", "cond", "ext", "simplify", "pickle", "mapw", "subst", "mset", "mget"}
  Shape <- ShapeAny
  LeafSet = {}
  AutoSimp = TRUE
  MapSpan = 6
  MapSrc = {}
  Rand = TRUE
INIT Init
NEXT Next
CHECK_DEADLOCK FALSE
