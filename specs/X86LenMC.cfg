\* C07 design check, quick: both modes, every prefix arrangement of up to 1 legacy prefix (+ REX)
CONSTANTS
  Dev = "none"
  Modes = {32, 64}
  MaxPfx = 1
  PfxSeqs = {}
  Hist = FALSE
INIT Init
NEXT NextF
INVARIANTS TypeOK LenBound DispRule DispRule3 ImmRule Deterministic
PROPERTY Progress
