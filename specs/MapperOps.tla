----------------------------- MODULE MapperOps -----------------------------
(***************************************************************************)
(* C09 - stores and loads through symbolic pointers under aliasing.         *)
(*                                                                          *)
(* Byte-granular model of amoco's mapper (cas/mapper.py) next to a          *)
(* byte-level sequential machine.                                           *)
(*                                                                          *)
(*  conc : the REFERENCE. Registers |-> byte strings, memory |-> bytes,     *)
(*         executing the micro-operations of a program one after the other  *)
(*         from an initial concrete state s0 (pointer values pv, data       *)
(*         values dv, initial memory im).                                   *)
(*  sym  : the IMPLEMENTATION-SHAPED state, a transcription of              *)
(*         mapper.__setitem__ (pointer branch) / M / aliasing / _Mem_read / *)
(*         _Mem_write / use / eval / rcompose and mem.eval (expressions.py) *)
(*         at byte granularity: a value is a sequence (least significant    *)
(*         byte first) of byte DESCRIPTORS                                  *)
(*            [t="d", r, k]     byte k of input data symbol r (a register)  *)
(*            [t="k", r, k]     byte k of the constant r (stored as raw     *)
(*                              bytes by MemoryZone)                        *)
(*            [t="v", v]        a concrete byte value                       *)
(*            [t="l", ld, k]    byte k of a load node ld = [b,d,n,en,mods]: *)
(*                              a `mem` expression of n bytes at base b + d *)
(*                              read with endianness en, carrying the       *)
(*                              ordered list `mods` of possibly aliasing    *)
(*                              stores (empty: a read of initial memory)    *)
(*         The mapper state is [map, lastw, zones]: the ordered item list   *)
(*         (pointer items [ptr=TRUE, loc, val], register items), the index  *)
(*         of the last memory write, and the zoned symbolic memory (zone    *)
(*         key = base symbol, or "none" for concrete addresses; MemoryZone  *)
(*         itself is the subject of C08 and is modelled here as a byte      *)
(*         store).                                                          *)
(*  Ref* : the MEANING the property gives to a value: descriptors are read  *)
(*         in s0; a load node is "read together with its mods" - the mods   *)
(*         are replayed, in order, into a copy of the initial memory with   *)
(*         the endianness of the load, then the bytes are read.             *)
(*                                                                          *)
(* Every place where amoco's algorithm was found (by TLC on this model, and *)
(* then reproduced on the real code) to deviate from a sound design is a    *)
(* named QUIRK. The operators take the set Q of quirks that are enabled:    *)
(* Q = AsIs is amoco as it is, Q = {} is the repaired design that TLC       *)
(* proves correct on the small constants. The trace specification uses the  *)
(* same operators to attribute an observed wrong value to the smallest set  *)
(* of quirks that predicts it exactly (known findings); a wrong value that  *)
(* no quirk set predicts is a new violation.                                *)
(*                                                                          *)
(*   KeyedStores  one map item per location: a store to an already written *)
(*                location deletes the old item and re-appends; a NARROWER  *)
(*                store is widened with the old value's upper bytes         *)
(*                (mapper.py:272-274, 244-245), which re-asserts old bytes  *)
(*                AFTER stores through other pointers made in between.      *)
(*                Repaired: the map is an append-only log of stores.        *)
(*   MergeLE      that widening puts the new value in the LOW bytes also    *)
(*                for big-endian stores (where it covers the HIGH bytes).   *)
(*   AliasKeySize aliasing() treats the location as "written after every    *)
(*                foreign store" when an item with the same key exists,     *)
(*                even if that item is narrower than the load               *)
(*                (mapper.py:191-196). Repaired: a narrower item counts as  *)
(*                not found.                                                *)
(*   PtrKeyLE     items are replayed through a `ptr` key by use / eval /    *)
(*                rcompose / mem.eval, and __setitem__ stores little-endian *)
(*                through a ptr key (mapper.py:275-278): every copy of a    *)
(*                map lays big-endian stores out little-endian.             *)
(*   BottomLE     _Mem_read turns an unwritten part of a big-endian read    *)
(*                into mem(a, size, disp=cur) with cur counted in the       *)
(*                REVERSED part list and the default little-endian order    *)
(*                (mapper.py:211-222).                                      *)
(*   EmptyMapShortcut  mapper.__call__ returns its argument unevaluated     *)
(*                when the item list is empty (mapper.py:318) - also when   *)
(*                memory HAS been written but writes are not kept as items  *)
(*                (noaliasing without memtrace): a load then ignores the    *)
(*                stores made before it.                                    *)
(***************************************************************************)
EXTENDS Integers, Sequences, FiniteSets, TLC, Json

AsIs == {"KeyedStores", "MergeLE", "AliasKeySize", "PtrKeyLE", "BottomLE", "EmptyMapShortcut"}

-----------------------------------------------------------------------------
(* locations and descriptors                                                *)
SymB(s)  == [s |-> s, v |-> 0]             \* symbolic base (a pointer register)
CncB(v)  == [s |-> "", v |-> v]            \* concrete base
IsCnc(b) == b.s = ""
MLoc(b, d) == [b |-> b, d |-> d]           \* ptr(base, disp)
ZKey(loc) == IF IsCnc(loc.b) THEN "none" ELSE loc.b.s          \* MemoryMap.reference
ZAdr(loc) == IF IsCnc(loc.b) THEN loc.b.v + loc.d ELSE loc.d

DData(r, k) == [t |-> "d", r |-> r, k |-> k]
DCst(r, k)  == [t |-> "k", r |-> r, k |-> k]
DVal(v)     == [t |-> "v", v |-> v]
DLd(nd, k)  == [t |-> "l", ld |-> nd, k |-> k]
MemNode(b, d, n, en) == [b |-> b, d |-> d, n |-> n, en |-> en, mods |-> <<>>]        \* mem(ptr(b, d), 8n, endian=en)
MemVal(b, d, n, en)  == [k \in 1..n |-> DLd(MemNode(b, d, n, en), k - 1)]

MaxS(S) == CHOOSE x \in S : \A y \in S : y <= x
MinI(a, b) == IF a < b THEN a ELSE b
RemoveAt(s, i) == SubSeq(s, 1, i - 1) \o SubSeq(s, i + 1, Len(s))

(* amoco slices a `mem` expression into a NEW, smaller mem expression (mem.__getitem__ / mem.bytes,      *)
(* expressions.py:1379-1403): a run of consecutive bytes of one load node that is not the whole node    *)
(* becomes a node of its own (same mods, displacement moved to the first byte of the run in memory).    *)
(* Same meaning; it matters for what amoco's own evaluation does with the node later.                  *)
RECURSIVE Renode(_)
Renode(val) ==
  IF val = <<>> THEN <<>>
  ELSE IF val[1].t # "l" THEN <<val[1]>> \o Renode(Tail(val))
  ELSE LET nd == val[1].ld k0 == val[1].k
           m  == MaxS({l \in 1..Len(val) : \A j \in 1..l : val[j].t = "l" /\ val[j].ld = nd /\ val[j].k = k0 + j - 1})
           nd2 == IF k0 = 0 /\ m = nd.n THEN nd
                  ELSE [nd EXCEPT !.d = nd.d + (IF nd.en = 1 THEN k0 ELSE nd.n - (k0 + m)), !.n = m]
       IN [j \in 1..m |-> DLd(nd2, j - 1)] \o Renode(SubSeq(val, m + 1, Len(val)))

EmptyMs == [map |-> <<>>, lastw |-> 0, zones |-> <<>>, nw |-> 0]
ZGet(zs, key) == IF key \in DOMAIN zs THEN zs[key] ELSE <<>>
ZPut(zs, key, z) == [k \in (DOMAIN zs) \cup {key} |-> IF k = key THEN z ELSE zs[k]]

(* MemoryZone.write. A zone maps an address to a cell [d, o, e, raw]: the     *)
(* byte descriptor, the number of the write that put it there (one memory    *)
(* object per write; MemoryZone cuts objects but never joins pieces of       *)
(* different writes, raw bytes excepted), the endianness the object was      *)
(* stored with, and whether it is raw bytes (a constant value). Value byte j *)
(* (least significant first) goes to address A+j (little endian) or A+n-1-j  *)
(* (big endian).                                                             *)
IsRaw(val) == \A k \in 1..Len(val) : val[k].t \in {"v", "k"}
(* a value that is (a contiguous slice of) one `mem` expression: MemoryZone   *)
(* cuts it with mem.bytes (expressions.py:1379), which takes the bytes in the *)
(* memory order of the SOURCE whatever the endianness of the store           *)
IsMemSlice(val) == /\ Len(val) > 0 /\ \A k \in 1..Len(val) : val[k].t = "l"
                   /\ \A k \in 2..Len(val) : val[k].ld = val[1].ld /\ val[k].k = val[1].k + k - 1
WriteZ(z, A, val, en, id) ==
  LET n == Len(val) new == {A + j : j \in 0..(n - 1)} raw == IsRaw(val)
      se == IF IsMemSlice(val) THEN val[1].ld.en ELSE en          \* the layout the object really gets
  IN [a \in (DOMAIN z) \cup new |->
        IF a \in new THEN (LET o == a - A IN [d |-> val[(IF se = 1 THEN o ELSE n - 1 - o) + 1], o |-> id, e |-> se, raw |-> raw])
        ELSE z[a]]

(* index of the (last) pointer item with key loc, 0 if none                 *)
PIdx(map, loc) ==
  LET S == {i \in 1..Len(map) : map[i].ptr /\ map[i].loc = loc} IN IF S = {} THEN 0 ELSE MaxS(S)
RIdx(map, r) ==
  LET S == {i \in 1..Len(map) : ~map[i].ptr /\ map[i].reg = r} IN IF S = {} THEN 0 ELSE MaxS(S)

-----------------------------------------------------------------------------
(* mapper.__setitem__, pointer branch (mapper.py:270-285) + _Mem_write       *)
SetPtr(ms, loc, val, en, Q, cf) ==
  LET i     == PIdx(ms.map, loc)
      keyed == "KeyedStores" \in Q
      old   == ms.map[i].val
      merge == keyed /\ i > 0 /\ Len(old) > Len(val)
      r     == IF merge
               THEN (IF en = 1 \/ "MergeLE" \in Q
                     THEN val \o Renode(SubSeq(old, Len(val) + 1, Len(old)))
                     ELSE Renode(SubSeq(old, 1, Len(old) - Len(val))) \o val)
               ELSE val
      z2    == WriteZ(ZGet(ms.zones, ZKey(loc)), ZAdr(loc), r, en, ms.nw + 1)
      map1  == IF keyed /\ i > 0 THEN RemoveAt(ms.map, i) ELSE ms.map         \* del self.__map[l]
      rec   == cf.mt \/ ~cf.na
  IN [map   |-> IF rec THEN Append(map1, [ptr |-> TRUE, loc |-> loc, val |-> r]) ELSE map1,
      lastw |-> IF rec THEN Len(map1) + 1 ELSE ms.lastw,
      zones |-> ZPut(ms.zones, ZKey(loc), z2),
      nw    |-> ms.nw + 1]

(* register branch: a dict keeps the position of an existing key            *)
SetReg(ms, r, val) ==
  LET i == RIdx(ms.map, r) e == [ptr |-> FALSE, reg |-> r, val |-> val] IN
  [ms EXCEPT !.map = IF i > 0 THEN [@ EXCEPT ![i] = e] ELSE Append(@, e)]

(* mapper.aliasing (mapper.py:183-203)                                      *)
Aliasing(ms, loc, n, Q, cf) ==
  IF cf.na THEN 0
  ELSE LET i0 == PIdx(ms.map, loc)
           i  == IF i0 > 0 /\ "AliasKeySize" \notin Q /\ Len(ms.map[i0].val) < n THEN 0 ELSE i0
           N  == ms.lastw
           lo == IF "FaultAliasLastOnly" \in Q /\ MinI(N, Len(ms.map)) > i + 1
                 THEN MinI(N, Len(ms.map)) ELSE i + 1                                  \* seeded fault (self-test)
       IN IF \E j \in lo..MinI(N, Len(ms.map)) : ms.map[j].ptr /\ ms.map[j].loc.b # loc.b
          THEN N ELSE 0

(* mapper._Mem_read (mapper.py:205-227) over MemoryZone.read: the range is   *)
(* returned as a list of parts in memory order - one per memory object (or   *)
(* piece of one), one per unwritten run; the list is reversed for a          *)
(* big-endian read and the parts are composed least significant first. An    *)
(* expression part is a unit (laid out with the endianness it was STORED     *)
(* with), raw bytes follow the endianness of the read.                       *)
RECURSIVE PartsAsc(_, _, _, _)
PartsAsc(z, A, n, o) ==      \* parts of [A+o, A+n) in ascending order: [u, lo, len]
  IF o >= n THEN <<>>
  ELSE LET und(x) == (A + x) \notin DOMAIN z
           same(x) == IF und(o) THEN und(x) ELSE (~und(x) /\ z[A + x].o = z[A + o].o)
           len == MaxS({l \in 1..(n - o) : \A x \in o..(o + l - 1) : same(x)})
       IN <<[u |-> und(o), lo |-> o, len |-> len]>> \o PartsAsc(z, A, n, o + len)
RECURSIVE PartsVal(_, _, _, _, _, _, _)
PartsVal(P, cur, z, loc, A, en, Q) ==     \* P in read order; cur = value bytes already produced
  IF P = <<>> THEN <<>>
  ELSE LET p == Head(P)
           bytes ==
             IF p.u                                \* mem(a, p.size, disp=cur): cur counted in the list as read
             THEN (IF en = -1 /\ "BottomLE" \in Q THEN MemVal(loc.b, loc.d + cur, p.len, 1)
                   ELSE MemVal(loc.b, loc.d + p.lo, p.len, en))
             ELSE LET c0 == z[A + p.lo]
                      ord == IF c0.raw THEN en ELSE c0.e
                  IN Renode([j \in 1..p.len |-> z[A + (IF ord = 1 THEN p.lo + j - 1 ELSE p.lo + p.len - j)].d])
       IN bytes \o PartsVal(Tail(P), cur + p.len, z, loc, A, en, Q)
MemRead(ms, loc, n, en, Q) ==
  LET z == ZGet(ms.zones, ZKey(loc)) A == ZAdr(loc)
      asc == PartsAsc(z, A, n, 0)
      P == IF en = 1 THEN asc ELSE [i \in 1..Len(asc) |-> asc[Len(asc) + 1 - i]]
  IN PartsVal(P, 0, z, loc, A, en, Q)

RECURSIVE PtrItems(_)
PtrItems(s) == IF s = <<>> THEN <<>>
               ELSE (IF Head(s).ptr THEN <<[loc |-> Head(s).loc, val |-> Head(s).val]>> ELSE <<>>) \o PtrItems(Tail(s))

(* mapper.M (mapper.py:167-181)                                             *)
MGet(ms, loc, n, en, Q, cf) ==
  LET N == Aliasing(ms, loc, n, Q, cf) IN
  IF N > 0
  THEN LET nd == [b |-> loc.b, d |-> loc.d, n |-> n, en |-> en,
                  mods |-> LET ps == PtrItems(SubSeq(ms.map, 1, MinI(N, Len(ms.map)))) IN
                           IF "FaultModsReversed" \in Q THEN [x \in 1..Len(ps) |-> ps[Len(ps) + 1 - x]] ELSE ps]   \* seeded fault
       IN [k \in 1..n |-> DLd(nd, k - 1)]
  ELSE MemRead(ms, loc, n, en, Q)

(* mapper.use() = self.eval(mapper()) (mapper.py:325-345, 379-393): a copy   *)
(* of the memory, then every item is set again, pointer items through their *)
(* ptr key                                                                  *)
PEn(en, Q) == IF "PtrKeyLE" \in Q THEN 1 ELSE en
RECURSIVE Replay(_, _, _, _, _)
Replay(acc, items, en, Q, cf) ==
  IF items = <<>> THEN acc
  ELSE LET e == Head(items) IN
       Replay(IF e.ptr THEN SetPtr(acc, e.loc, e.val, PEn(en, Q), Q, cf) ELSE SetReg(acc, e.reg, e.val),
              Tail(items), en, Q, cf)
Use(ms, Q, cf) == Replay([map |-> <<>>, lastw |-> 0, zones |-> ms.zones, nw |-> ms.nw], ms.map, cf.en, Q, cf)

-----------------------------------------------------------------------------
(* amoco's own evaluation of a value in a concrete state c (a mapper whose   *)
(* registers are constants): exp.eval(c), mem.eval (expressions.py:1353)     *)
EvalLoc(loc, s0) == IF IsCnc(loc.b) THEN loc ELSE MLoc(CncB(s0.pv[loc.b.s]), loc.d)

(* c = [c |-> the concrete mapper, u |-> Use(c)] (the copy every mem.eval starts from)     *)
RECURSIVE EvalVal(_, _, _, _, _), MemEval(_, _, _, _, _), ReplayMods(_, _, _, _, _, _, _)
EvalVal(val, c, s0, Q, cf) ==
  LET nodes == {val[k].ld : k \in {j \in 1..Len(val) : val[j].t = "l"}}
      ev    == [nd \in nodes |-> MemEval(nd, c, s0, Q, cf)]
  IN [k \in 1..Len(val) |->
        LET d == val[k] IN
        CASE d.t \in {"d", "k"} -> DVal(s0.dv[d.r][d.k + 1])
          [] d.t = "v" -> d
          [] d.t = "l" -> ev[d.ld][d.k + 1]]
ReplayMods(acc, mods, en, c, s0, Q, cf) ==
  IF mods = <<>> THEN acc
  ELSE ReplayMods(SetPtr(acc, EvalLoc(Head(mods).loc, s0), EvalVal(Head(mods).val, c, s0, Q, cf), PEn(en, Q), Q, cf),
                  Tail(mods), en, c, s0, Q, cf)
MemEval(nd, c, s0, Q, cf) ==
  MGet(ReplayMods(c.u, nd.mods, nd.en, c, s0, Q, cf), EvalLoc(MLoc(nd.b, nd.d), s0), nd.n, nd.en, Q, cf)

(* c >> m = m.rcompose(c) (mapper.py:347-366)                                *)
RECURSIVE ComposeR(_, _, _, _, _, _)
ComposeR(acc, items, c, s0, Q, cf) ==
  IF items = <<>> THEN acc
  ELSE LET e == Head(items) v == EvalVal(e.val, c, s0, Q, cf) IN
       ComposeR(IF e.ptr THEN SetPtr(acc, EvalLoc(e.loc, s0), v, PEn(cf.en, Q), Q, cf) ELSE SetReg(acc, e.reg, v),
                Tail(items), c, s0, Q, cf)
Compose(c, m, s0, Q, cf) == LET cu == [c |-> c, u |-> Use(c, Q, cf)] IN ComposeR(cu.u, m.map, cu, s0, Q, cf)

(* the concrete start state as the replayer builds it: registers, then (if   *)
(* minit) one 8-bit store per byte of the initial memory window              *)
RECURSIVE InitBytes(_, _, _, _, _)
InitBytes(acc, as, s0, Q, cf) ==
  IF as = <<>> THEN acc
  ELSE InitBytes(SetPtr(acc, MLoc(CncB(Head(as)), 0), <<DVal(s0.im[Head(as)])>>, 1, Q, cf), Tail(as), s0, Q, cf)
RECURSIVE InitRegs(_, _)
InitRegs(acc, rs) == IF rs = <<>> THEN acc ELSE InitRegs(SetReg(acc, Head(rs), <<>>), Tail(rs))
BuildC(s0, Q, cf) ==
  LET c0 == InitRegs(EmptyMs, s0.regs) IN
  IF s0.minit = 1 THEN InitBytes(c0, s0.ima, s0, Q, cf) ELSE c0

-----------------------------------------------------------------------------
(* programs. op = [o="st", p, off, n, vk, src] | [o="ld", p, off, n, dst]     *)
(*   vk = "d" (a data register), "c" (a constant), "r" (a loaded register)   *)
RegVal(ms, r) == ms.map[RIdx(ms.map, r)].val
(* m(mem(loc, 8n, endian=en)): mapper.__call__ -> mem.eval(m) -> m.use()[mem(..)]                  *)
LoadValU(ms, ums, loc, n, Q, cf) ==                          \* ums = Use(ms, Q, cf)
  IF "EmptyMapShortcut" \in Q /\ ms.map = <<>>
  THEN MemVal(loc.b, loc.d, n, cf.en)                        \* the mem expression itself
  ELSE MGet(ums, loc, n, cf.en, Q, cf)
LoadVal(ms, loc, n, Q, cf) == LoadValU(ms, Use(ms, Q, cf), loc, n, Q, cf)
SymStep(ms, op, Q, cf) ==
  LET loc == MLoc(SymB(op.p), op.off) IN
  IF op.o = "st"
  THEN SetPtr(ms, loc, IF op.vk = "r" THEN RegVal(ms, op.src)
                       ELSE [k \in 1..op.n |-> IF op.vk = "c" THEN DCst(op.src, k - 1) ELSE DData(op.src, k - 1)],
              cf.en, Q, cf)
  ELSE SetReg(ms, op.dst, LoadVal(ms, loc, op.n, Q, cf))
RECURSIVE SymRun(_, _, _, _)
SymRun(ms, prog, Q, cf) == IF prog = <<>> THEN ms ELSE SymRun(SymStep(ms, Head(prog), Q, cf), Tail(prog), Q, cf)

(* the byte-level sequential machine                                        *)
WrBytes(mem, A, bytes, en) ==
  LET n == Len(bytes) IN
  [a \in DOMAIN mem |-> IF a >= A /\ a < A + n
                        THEN bytes[(IF en = 1 THEN a - A ELSE n - 1 - (a - A)) + 1] ELSE mem[a]]
RdBytes(mem, A, n, en) == [k \in 1..n |-> mem[A + (IF en = 1 THEN k - 1 ELSE n - k)]]
ConcStep(st, op, s0, en) ==
  LET A == s0.pv[op.p] + op.off IN
  IF op.o = "st"
  THEN [st EXCEPT !.mem = WrBytes(@, A, IF op.vk = "r" THEN st.regs[op.src] ELSE SubSeq(s0.dv[op.src], 1, op.n), en)]
  ELSE [st EXCEPT !.regs = [r \in (DOMAIN st.regs) \cup {op.dst} |->
                               IF r = op.dst THEN RdBytes(st.mem, A, op.n, en) ELSE st.regs[r]]]
RECURSIVE ConcRun(_, _, _, _)
ConcRun(st, prog, s0, en) == IF prog = <<>> THEN st ELSE ConcRun(ConcStep(st, Head(prog), s0, en), Tail(prog), s0, en)
Conc0(s0) == [regs |-> <<>>, mem |-> s0.im]

(* "different pointers do not overlap": the byte ranges accessed through     *)
(* different pointer registers are disjoint                                  *)
Disjoint(prog, s0) ==
  \A i, j \in 1..Len(prog) :
     prog[i].p # prog[j].p =>
       LET a == s0.pv[prog[i].p] + prog[i].off b == s0.pv[prog[j].p] + prog[j].off IN
       a + prog[i].n <= b \/ b + prog[j].n <= a

-----------------------------------------------------------------------------
(* the meaning of a value in s0 (reference)                                 *)
RECURSIVE RefVal(_, _), RefNode(_, _), RefMods(_, _, _, _)
RefVal(val, s0) ==
  LET nodes == {val[k].ld : k \in {j \in 1..Len(val) : val[j].t = "l"}}
      ev    == [nd \in nodes |-> RefNode(nd, s0)]
  IN [k \in 1..Len(val) |->
        LET d == val[k] IN
        CASE d.t \in {"d", "k"} -> s0.dv[d.r][d.k + 1]
          [] d.t = "v" -> d.v
          [] d.t = "l" -> ev[d.ld][d.k + 1]]
RefMods(mem, mods, en, s0) ==
  IF mods = <<>> THEN mem
  ELSE RefMods(WrBytes(mem, ZAdr(EvalLoc(Head(mods).loc, s0)), RefVal(Head(mods).val, s0), en), Tail(mods), en, s0)
RefNode(nd, s0) == RdBytes(RefMods(s0.im, nd.mods, nd.en, s0), ZAdr(EvalLoc(MLoc(nd.b, nd.d), s0)), nd.n, nd.en)

(* final memory a map denotes: its pointer items performed in map order      *)
RefFinal(ms, s0, en) == RefMods(s0.im, PtrItems(ms.map), en, s0)
(* final memory of a composed (concrete) map: its zone of concrete addresses *)
ZoneFinal(mm, s0) ==
  LET z == ZGet(mm.zones, "none") IN
  [a \in DOMAIN s0.im |-> IF a \in DOMAIN z THEN RefVal(<<z[a].d>>, s0)[1] ELSE s0.im[a]]

(* what the as-is / repaired model predicts for c >> m                       *)
Predict(prog, s0, Q, cf) == Compose(BuildC(s0, Q, cf), SymRun(EmptyMs, prog, Q, cf), s0, Q, cf)

=============================================================================
