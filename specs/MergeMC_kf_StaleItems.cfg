\* C19 finding: merge() joining the recorded (possibly stale) item values, everything else repaired, must violate Covers
CONSTANTS
  Regs = {"a"}
  Flags = {"f"}
  RB = 2
  Offsets = {0, 1}
  Sizes = {1, 2}
  Kinds = {1, 2}
  PPs = {}
  MaxPre = 0
  MaxB = 2
  Widen = {FALSE}
  Thr = {FALSE}
  Conds = {0}
  Q = {"StaleItems"}
  Gen = FALSE
INIT Init
NEXT Next
CHECK_DEADLOCK FALSE
INVARIANTS Covers Untouched KeysOK
