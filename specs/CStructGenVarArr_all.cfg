\* M+G (thorough, exhaustive, arrays of variable-length structures):
\* packed structures of <= 2 members, each B, i, B*~, B*~B, i*%leb128 or a packed structure of <= 2 such members alone or as an
\* array of 3 (elements of different lengths, then a member after the array)
CONSTANTS
  RawT = {"B", "i"}
  ArrN = {}
  NestN = {3}
  Ords = {""}
  DefOrds = {""}
  DefKinds = {"packed"}
  MaxF = 2
  MaxIF = 2
  MinF = 1
  MaxDepth = 1
  Feat = {"nestarr", "vararr", "var", "cnt", "leb"}
  BitSplits <- BitSplitsNone
  PS = {32}
  VCs = {"pat", "neg"}
  Stride = 1
  Dev = {}
  Mode = "gen"
INIT Init
NEXT Next
INVARIANT LayoutOK
INVARIANT SizeOK
INVARIANT RoundTrip
INVARIANT Monotone
CONSTRAINT Emit
CHECK_DEADLOCK FALSE
