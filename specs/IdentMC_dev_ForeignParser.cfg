\* self-test: the seeded fault ForeignParser must be rejected (INVARIANT InvOwnErrorsOnly)
CONSTANTS
  Dev = {"ForeignParser"}
  Mode = "mc"
SPECIFICATION Spec
INVARIANT InvOwnErrorsOnly
CHECK_DEADLOCK FALSE
