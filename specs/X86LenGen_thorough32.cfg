\* C07 generator (thorough, 32-bit mode): one template per path class
CONSTANTS
  Dev = "none"
  Modes = {32}
  MaxPfx = 4
  PfxSeqs <- PfxThorough
  Hist = TRUE
INIT Init
NEXT Next
CONSTRAINT Emit
CHECK_DEADLOCK FALSE
