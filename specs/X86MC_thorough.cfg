\* M, thorough: X86.tla against integer arithmetic / BitVec, more values
CONSTANTS
  Fault = "none"
  Vals8 = {0, 1, 2, 3, 7, 8, 9, 15, 16, 17, 31, 32, 63, 64, 85, 100, 126, 127, 128, 129, 130, 170, 191, 192, 200, 223, 224, 240, 241, 253, 254, 255}
  Limbs16 <- LimbPool
INIT Init
NEXT Next
INVARIANTS Flags8 FastMul Limbs SubReg CondTable DivRel
CHECK_DEADLOCK FALSE
