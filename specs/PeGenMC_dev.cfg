\* C14 self-test: a reader that lays a PE32+ optional header out as PE32 must violate RoundTrip
CONSTANTS
  Dev = "PlusAsPE32"
  Pluses = {TRUE}
  Seeds = {3}
  MaxSec = 1
  DirCounts = {16}
  OptPads = {0}
  Aligns = {16}
  RawKinds = {"eq"}
INIT Init
NEXT Next
INVARIANT RoundTrip
CHECK_DEADLOCK FALSE
