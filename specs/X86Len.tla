------------------------------- MODULE X86Len -------------------------------
(***************************************************************************)
(* C07. The IA-32 / x86-64 instruction LENGTH decoder as a state machine    *)
(*                                                                          *)
(*   Prefix* -> REX? -> Opcode (one-byte | 0F | 0F38 | 0F3A) -> ModRM?      *)
(*           -> SIB? -> Disp(0/1/2/4) -> Imm(0/1/2/3/4/6/8) -> Done         *)
(*                                                                          *)
(* The per-opcode knowledge (has ModRM, immediate kind per mandatory-prefix *)
(* column, /digit groups, register-form exceptions, mode-invalid opcodes,   *)
(* rel8/relz branches) is the generated module X86OpTab, derived from GNU   *)
(* objdump and LLVM by probing (corpus/x86len/build_optab.py); the prefix,  *)
(* REX, escape, ModRM/SIB/displacement and immediate-size rules are written *)
(* here. Table + rules are bound to the references by validating the        *)
(* vendored reference table against Decode (X86LenTrace, stage T-ref).      *)
(*                                                                          *)
(* One definition, three uses:                                              *)
(*   StepOn(s, byte) / Skip(s)   the transition function on a state record  *)
(*   Decode(bytes, mode)         its iteration on a concrete byte string    *)
(*                               (trace validation, X86LenTrace)            *)
(*   Next                        the same transitions as TLA+ actions over  *)
(*                               BYTE CLASSES: at a byte-reading state the  *)
(*                               256 byte values are partitioned by their   *)
(*                               successor state; TLC walks every path      *)
(*                               class (X86LenMC: invariants; X86LenGen:    *)
(*                               emits byte-string templates).              *)
(*                                                                          *)
(* Terminal states: Done (valid instruction, length pos), Out (outside the  *)
(* claimed domain: a reference rejects it, the references disagree, VEX /   *)
(* EVEX / XOP / 3DNow, > 15 bytes, a legacy prefix or second REX after REX),*)
(* Trunc (input exhausted; only for concrete strings).                      *)
(***************************************************************************)
EXTENDS Integers, Sequences, FiniteSets, TLC, Json, X86OpTab

CONSTANTS Dev,        \* "none" or the name of a seeded fault (self-test, must be rejected)
          Modes,      \* subset of {32, 64}
          MaxPfx,     \* bound on the number of legacy prefixes explored by the class walk
          PfxSeqs,    \* generator: set of allowed prefix byte sequences ({} = any up to MaxPfx)
          Hist        \* TRUE: keep the history h (generator); FALSE: h stays empty (model checking)

SegPfx == {38, 46, 54, 62, 100, 101}          \* 26 2E 36 3E 64 65
LegacyPfx == SegPfx \cup {102, 103, 240, 242, 243}   \* 66 67 F0 F2 F3

\* Deviations. dev = "none" is the specification. Two families of named deviations exist:
\*  * seeded faults of the model itself (self-test: TLC must reject them, X86LenMC_dev*.cfg):
ModelFaults == {"SibBase5NoDisp", "Mod1Disp4", "ImmIgnores66"}
\*  * AmocoDevs (defined below): what amoco is known to do instead, each as narrow as the defect; a failing
\*    string is attributed to a known finding iff the specification WITH that deviation reproduces what
\*    amoco reported (X86LenTrace.Judge); anything else is an unattributed violation.

\* known amoco deviations, in attribution order
AmocoDevs == <<"X64_A32_SibBase5_NoDisp32", "X64_66_RexW_Imm16">>
AmocoDevSet == {AmocoDevs[k] : k \in DOMAIN AmocoDevs}

Init0(mode, dev) ==
  [mode |-> mode, dev |-> dev, lenient |-> FALSE, st |-> "Prefix", pos |-> 0, npfx |-> 0,
   p66 |-> FALSE, p67 |-> FALSE, pc |-> "n", lock |-> FALSE,
   rex |-> -1, opsize |-> 32, adsize |-> mode, map |-> 1, op |-> -1,
   aid |-> 0, kind |-> "x", mod |-> -1, rm |-> -1, sib |-> -1,
   ndisp |-> 0, nimm |-> 0, dpos |-> 0, ipos |-> 0, br |-> FALSE]

Out(s)  == [s EXCEPT !.st = "Out"]

(***************************************************************************)
(* operand / address size in effect (REX.W wins over 66)                    *)
(***************************************************************************)
OpSize(s)  == IF s.rex >= 8 THEN 64 ELSE IF s.p66 THEN 16 ELSE 32
AdSize(s)  == IF s.mode = 64 THEN (IF s.p67 THEN 32 ELSE 64) ELSE (IF s.p67 THEN 16 ELSE 32)
\* column of the attribute tuples <<none, 66, F2, F3, 66+F2, 66+F3>> (without REX.W, then the same six with
\* REX.W); of several F2/F3 the last one counts
PcIdx(s)   == (IF s.pc = "F2" THEN (IF s.p66 THEN 5 ELSE 3)
               ELSE IF s.pc = "F3" THEN (IF s.p66 THEN 6 ELSE 4)
               ELSE IF s.p66 THEN 2 ELSE 1)
              + (IF s.rex >= 8 THEN 6 ELSE 0)

ImmBytes(kind, opsize, adsize) ==
  CASE kind = "0"  -> 0
    [] kind = "ib" -> 1
    [] kind = "iw" -> 2
    [] kind = "i3" -> 3
    [] kind = "iz" -> IF opsize = 16 THEN 2 ELSE 4
    [] kind = "iv" -> opsize \div 8
    [] kind = "ap" -> (IF opsize = 16 THEN 2 ELSE 4) + 2
    [] kind = "mo" -> adsize \div 8
    [] kind = "i4" -> 4
    [] kind = "i8" -> 8

(***************************************************************************)
(* displacement bytes after ModRM (and SIB): the operational rule           *)
(***************************************************************************)
DispAfterModRM(adsize, mod, rm) ==       \* no SIB byte involved
  IF mod = 3 THEN 0
  ELSE IF adsize = 16
       THEN (IF mod = 0 THEN (IF rm = 6 THEN 2 ELSE 0) ELSE IF mod = 1 THEN 1 ELSE 2)
       ELSE (IF mod = 0 THEN (IF rm = 5 THEN 4 ELSE 0) ELSE IF mod = 1 THEN 1 ELSE 4)
DispAfterSIB(s, mod, base) ==
  IF mod = 0
  THEN (IF base = 5 /\ s.dev # "SibBase5NoDisp"
           \* amoco x64/utils.py getModRM: the "no base, disp32" test compares b.ref with ("rbp", "r13"); under a
           \* 67 prefix the base register object is ebp / r13d, the test fails and no displacement is read
           /\ ~(s.dev = "X64_A32_SibBase5_NoDisp32" /\ s.mode = 64 /\ s.adsize = 32)
        THEN 4 ELSE 0)
  ELSE IF mod = 1 THEN 1 ELSE 4
NeedSIB(adsize, mod, rm) == adsize # 16 /\ mod # 3 /\ rm = 4

(***************************************************************************)
(* the same rule written as a table (declarative double entry; the          *)
(* invariant DispRule demands that the machine agrees with it on every      *)
(* reachable state). Rows: mod 0..2, columns: rm 0..7; -1 = "SIB follows".  *)
(***************************************************************************)
DispTab16 == << <<0,0,0,0,0,0,2,0>>, <<1,1,1,1,1,1,1,1>>, <<2,2,2,2,2,2,2,2>> >>
DispTab32 == << <<0,0,0,0,-1,4,0,0>>, <<1,1,1,1,-1,1,1,1>>, <<4,4,4,4,-1,4,4,4>> >>
SibDispTab == << <<0,0,0,0,0,4,0,0>>, <<1,1,1,1,1,1,1,1>>, <<4,4,4,4,4,4,4,4>> >>   \* by SIB.base

(***************************************************************************)
(* prefixes. Outside the claimed domain: a legacy prefix after REX (the      *)
(* references print the REX as a pseudo-instruction of its own or           *)
(* disagree). LOCK and repeated F2/F3 are decoded (where both references    *)
(* accept them the lengths agree with this rule on the whole corpus); the   *)
(* generator configurations do not use them because LLVM prints LOCK in     *)
(* front of most instructions as a line of its own.                         *)
(***************************************************************************)
PrefixStep(s, b) ==
  LET t == [s EXCEPT !.pos = @ + 1, !.npfx = @ + 1] IN
  IF s.rex >= 0 THEN Out(s)                       \* legacy prefix after REX
  ELSE IF b = 102 THEN [t EXCEPT !.p66 = TRUE]
  ELSE IF b = 103 THEN [t EXCEPT !.p67 = TRUE]
  ELSE IF b = 242 THEN [t EXCEPT !.pc = "F2"]
  ELSE IF b = 243 THEN [t EXCEPT !.pc = "F3"]
  \* segment overrides and LOCK do not change the length; LOCK is remembered only to keep it a byte class
  \* of its own (the generator must be able to leave it out: LLVM prints it as a line of its own)
  ELSE IF b = 240 THEN [t EXCEPT !.lock = TRUE]
  ELSE t

\* the immediate kind of a class in the column in effect. Lenient mode (used ONLY to attribute a failure on a
\* string outside the claimed domain to a known finding, never to produce an expected value) falls back to the
\* first valid column of the same class when the column in effect is marked invalid.
RECURSIVE FirstValid(_, _)
FirstValid(ks, k) == IF k > Len(ks) THEN "x" ELSE IF ks[k] # "x" THEN ks[k] ELSE FirstValid(ks, k + 1)
KindOf(s, ks) == IF ks[PcIdx(s)] # "x" \/ ~s.lenient THEN ks[PcIdx(s)] ELSE FirstValid(ks, 1)

AfterOpcode(s, op) ==
  LET id == OpId(s.mode, s.map, op)
      a == Attr(id)
      \* the opcode byte itself is remembered only while reproducing an amoco deviation (the class walk must
      \* not distinguish opcodes with the same attributes)
      t == [s EXCEPT !.pos = @ + 1, !.aid = id, !.opsize = OpSize(s), !.adsize = AdSize(s),
                     !.op = IF s.dev \in AmocoDevSet THEN op ELSE -1] IN
  CASE a.k = "x" -> Out(t)
    [] a.k = "p" -> Out(t)
    [] a.k = "n" -> LET kd == KindOf(s, a.imm) IN
                    IF kd = "x" THEN Out(t)
                    ELSE [t EXCEPT !.kind = kd, !.br = a.br, !.st = "Disp", !.ndisp = 0]
    [] a.k = "m" -> [t EXCEPT !.st = "ModRM"]

OpcodeStep(s, b) ==
  IF s.map = 1 /\ b = 15 THEN [s EXCEPT !.pos = @ + 1, !.map = 2, !.st = "Opcode"]
  ELSE IF s.map = 2 /\ b = 56 THEN [s EXCEPT !.pos = @ + 1, !.map = 3]
  ELSE IF s.map = 2 /\ b = 58 THEN [s EXCEPT !.pos = @ + 1, !.map = 4]
  ELSE AfterOpcode(s, b)

ModRMStep(s, b) ==
  LET mod == b \div 64
      reg == (b \div 8) % 8
      rm  == b % 8
      a   == Attr(s.aid)
      e   == IF mod = 3 THEN a.reg[reg + 1] ELSE [u |-> TRUE, k |-> a.mem[reg + 1]]
      ks  == IF e.u THEN e.k ELSE e.ks[rm + 1]
      kd  == KindOf(s, ks)
      \* the state keeps rm only as far as the addressing rule distinguishes it (4, 5, 6, other = 0)
      t   == [s EXCEPT !.pos = @ + 1, !.mod = mod, !.rm = IF rm \in {4, 5, 6} THEN rm ELSE 0, !.kind = kd] IN
  IF kd = "x" THEN Out(t)
  ELSE IF NeedSIB(s.adsize, mod, rm) THEN [t EXCEPT !.st = "SIB"]
  ELSE [t EXCEPT !.st = "Disp",
                 !.ndisp = IF s.dev = "Mod1Disp4" /\ mod = 1 THEN 4 ELSE DispAfterModRM(s.adsize, mod, rm)]

SIBStep(s, b) ==
  \* of the SIB byte only "base = 5" matters
  [s EXCEPT !.pos = @ + 1, !.sib = IF b % 8 = 5 THEN 5 ELSE 0, !.st = "Disp", !.ndisp = DispAfterSIB(s, s.mod, b % 8)]

\* one input byte consumed in a byte-reading state
StepOn(s, b) ==
  CASE s.st = "Prefix" ->
         IF b \in LegacyPfx THEN PrefixStep(s, b)
         ELSE IF s.mode = 64 /\ b >= 64 /\ b <= 79
              THEN (IF s.rex >= 0 THEN Out(s)      \* REX after REX
                    ELSE [s EXCEPT !.pos = @ + 1, !.rex = IF b >= 72 THEN 8 ELSE 0])   \* only REX.W matters
              ELSE OpcodeStep(s, b)
    [] s.st = "Opcode" -> OpcodeStep(s, b)
    [] s.st = "ModRM"  -> ModRMStep(s, b)
    [] s.st = "SIB"    -> SIBStep(s, b)

\* immediate size under an amoco deviation (-1: the deviation does not apply here)
DevImm(s) ==
  CASE \* amoco x64/spec_ia32e.py: handlers that compute  immsz = misc["opdsz"] or 32  and let REX.W widen only
       \* the operand: with 66 and REX.W together the immediate is read as 16 bits (references: REX.W wins, 32)
       \* rows: 05 0D 15 1D 25 2D 35 3D A9 (op eAX, imm), 68 (PUSH imm), E8 E9 (CALL / JMP rel)
       s.dev = "X64_66_RexW_Imm16" /\ s.mode = 64 /\ s.p66 /\ s.rex >= 8 /\ s.kind = "iz" /\ s.map = 1
         /\ s.op \in {5, 13, 21, 29, 37, 45, 53, 61, 169, 104, 232, 233} -> 2
    [] OTHER -> -1

\* states that consume a run of free bytes (or nothing)
Skip(s) ==
  CASE s.st = "Disp" -> [s EXCEPT !.dpos = s.pos, !.pos = @ + s.ndisp, !.st = "Imm"]
    [] s.st = "Imm"  ->
         LET n == IF s.dev = "ImmIgnores66" /\ s.kind = "iz" THEN 4
                  ELSE IF DevImm(s) >= 0 THEN DevImm(s)
                  ELSE ImmBytes(s.kind, s.opsize, s.adsize)
             t == [s EXCEPT !.ipos = s.pos, !.nimm = n, !.pos = @ + n] IN
         IF t.pos > 15 THEN Out(t) ELSE [t EXCEPT !.st = "Done"]

ByteStates == {"Prefix", "Opcode", "ModRM", "SIB"}
SkipStates == {"Disp", "Imm"}
Terminal   == {"Done", "Out", "Trunc"}

(***************************************************************************)
(* concrete decoding                                                        *)
(***************************************************************************)
RECURSIVE Run(_, _)
Run(s, bytes) ==
  IF s.st \in Terminal THEN s
  ELSE IF s.st \in SkipStates THEN
         LET t == Skip(s) IN IF t.pos > Len(bytes) THEN [t EXCEPT !.st = "Trunc"] ELSE Run(t, bytes)
  ELSE IF s.pos >= Len(bytes) \/ s.pos >= 15 THEN [s EXCEPT !.st = IF s.pos >= 15 THEN "Out" ELSE "Trunc"]
  ELSE Run(StepOn(s, bytes[s.pos + 1]), bytes)

\* Dev is "none" except in the self-test configurations
Decode(bytes, mode) == Run(Init0(mode, Dev), bytes)
DecodeDev(bytes, mode, dev) == Run(Init0(mode, dev), bytes)
DecodeLenient(bytes, mode, dev) == Run([Init0(mode, dev) EXCEPT !.lenient = TRUE], bytes)



\* displacement of a relative branch as four 16-bit limbs (little endian) of the 64-bit two's complement
DispLimbs(bytes, d) ==
  LET B(i) == bytes[d.ipos + i] IN
  IF d.nimm = 1 THEN
       LET v == B(1) IN IF v >= 128 THEN <<65280 + v, 65535, 65535, 65535>> ELSE <<v, 0, 0, 0>>
  ELSE IF d.nimm = 2 THEN
       LET v == B(1) + 256 * B(2) IN IF v >= 32768 THEN <<v, 65535, 65535, 65535>> ELSE <<v, 0, 0, 0>>
  ELSE LET lo == B(1) + 256 * B(2)
           hi == B(3) + 256 * B(4) IN
       IF hi >= 32768 THEN <<lo, hi, 65535, 65535>> ELSE <<lo, hi, 0, 0>>

(***************************************************************************)
(* the class walk                                                           *)
(***************************************************************************)
VARIABLES s, h
vars == <<s, h>>

Bytes == 0..255
\* partition of the byte values by successor state
Classes(st) ==
  LET sig == TLCEval([b \in Bytes |-> StepOn(st, b)])   \* forced: a lazy function would re-run StepOn per application
      img == {sig[b] : b \in Bytes} IN
  { {b \in Bytes : sig[b] = t} : t \in img }

PfxAllowed(st, cls) ==
  \/ st.st # "Prefix"
  \/ cls \cap LegacyPfx = {}
  \/ /\ st.npfx < MaxPfx
     /\ \/ PfxSeqs = {}
        \/ ~Hist
        \/ \E q \in PfxSeqs : /\ Len(q) > Len(h)
                              /\ \A i \in 1..Len(h) : q[i] \in h[i].c
                              /\ q[Len(h) + 1] \in cls

\* a generator prefix sequence must be completed before the opcode is read
PfxComplete(st, cls) ==
  \/ st.st # "Prefix" \/ ~Hist \/ PfxSeqs = {}
  \/ cls \cap LegacyPfx # {}
  \/ st.rex >= 0
  \/ \E q \in PfxSeqs : Len(q) = Len(h) /\ \A i \in 1..Len(h) : q[i] \in h[i].c

\* prefix sequences used by the generator configurations (66 67 F2 F3 2E 64 65; no LOCK, one F2/F3 at most)
PfxQuick == {<<>>, <<102>>, <<103>>, <<242>>, <<243>>, <<46>>, <<102, 103>>, <<243, 102>>, <<100, 103, 102>>}
PfxAtoms == {102, 103, 242, 243, 46, 100}
Reps(q) == Cardinality({i \in DOMAIN q : q[i] \in {242, 243}})
PfxThorough == {<<>>} \cup {<<a>> : a \in PfxAtoms}
               \cup {q \in {<<a, b>> : a, b \in PfxAtoms} : Reps(q) <= 1}
               \cup {<<102, 103, 243>>, <<243, 102, 103>>, <<46, 102, 242>>, <<103, 103, 102>>, <<100, 243, 103>>,
                     <<102, 46, 103, 243>>}

Init == /\ \E m \in Modes : s = Init0(m, Dev)
        /\ h = <<>>

ReadByte ==
  /\ s.st \in ByteStates
  /\ s.pos < 15
  /\ \E cls \in Classes(s) :
       /\ PfxAllowed(s, cls)
       /\ PfxComplete(s, cls)
       /\ s' = StepOn(s, CHOOSE b \in cls : TRUE)
       /\ h' = IF Hist THEN Append(h, [c |-> cls]) ELSE h

SkipBytes ==
  /\ s.st \in SkipStates
  /\ s' = Skip(s)
  /\ h' = IF Hist /\ s'.pos > s.pos THEN Append(h, [any |-> s'.pos - s.pos]) ELSE h

TooLong ==
  /\ s.st \in ByteStates /\ s.pos >= 15
  /\ s' = Out(s) /\ UNCHANGED h

Next == ReadByte \/ SkipBytes \/ TooLong
\* terminal states stutter, so that TLC's deadlock check reports exactly the non-terminal states without successor
Finished == s.st \in Terminal /\ UNCHANGED vars
NextF == Next \/ Finished
Spec == Init /\ [][Next]_vars

(***************************************************************************)
(* invariants (X86LenMC)                                                    *)
(***************************************************************************)
TypeOK ==
  /\ s.mode \in {32, 64} /\ s.pos \in 0..23 /\ s.map \in 1..4
  /\ s.st \in ByteStates \cup SkipStates \cup Terminal
  /\ s.ndisp \in {0, 1, 2, 4} /\ s.nimm \in {0, 1, 2, 3, 4, 6, 8}
  /\ (s.mode = 32 => s.rex = -1)
  /\ s.opsize \in {16, 32, 64} /\ s.adsize \in {16, 32, 64}

\* every path that ends in Done is a complete instruction of at most 15 bytes whose length is the
\* sum of its parts
LenBound == s.st = "Done" =>
  /\ s.pos \in 1..15
  /\ s.pos = s.npfx + (IF s.rex >= 0 THEN 1 ELSE 0) + (CASE s.map = 1 -> 1 [] s.map = 2 -> 2 [] OTHER -> 3)
             + (IF Attr(s.aid).k = "m" THEN 1 ELSE 0) + (IF s.sib >= 0 THEN 1 ELSE 0) + s.ndisp + s.nimm
  /\ s.ipos + s.nimm = s.pos /\ s.dpos + s.ndisp = s.ipos

\* the operational addressing rule agrees with the declarative tables
DispRule == (s.st \in {"Disp", "Imm", "Done"} /\ Attr(s.aid).k = "m" /\ s.mod \in 0..2) =>
  IF s.adsize = 16 THEN s.sib = -1 /\ s.ndisp = DispTab16[s.mod + 1][s.rm + 1]
  ELSE IF s.sib >= 0 THEN DispTab32[s.mod + 1][s.rm + 1] = -1 /\ s.ndisp = SibDispTab[s.mod + 1][s.sib + 1]
  ELSE s.ndisp = DispTab32[s.mod + 1][s.rm + 1]
DispRule3 == (s.st \in {"Disp", "Imm", "Done"} /\ (Attr(s.aid).k = "n" \/ s.mod = 3)) => s.ndisp = 0 /\ s.sib = -1

\* immediate sizes follow operand / address size exactly as the kinds say
ImmRule == s.st = "Done" =>
  /\ (s.kind \in {"iz"} => s.nimm = (IF s.rex >= 8 THEN 4 ELSE IF s.p66 THEN 2 ELSE 4))
  /\ (s.kind = "iv" => s.nimm = (IF s.rex >= 8 THEN 8 ELSE IF s.p66 THEN 2 ELSE 4))
  /\ (s.kind = "mo" => s.nimm = (IF s.mode = 64 THEN (IF s.p67 THEN 4 ELSE 8) ELSE (IF s.p67 THEN 2 ELSE 4)))
  /\ (s.kind = "ib" => s.nimm = 1) /\ (s.kind = "0" => s.nimm = 0)
  /\ (s.br => s.nimm \in {1, 2, 4})

\* determinism of the class walk: the classes of a byte-reading state are the fibres of the successor
\* function (so every member of a class leads to the same successor and a template stands for all of its
\* instances); they must cover all 256 byte values and be pairwise disjoint (no byte string has two
\* decodings, none has no decoding)
RECURSIVE SumCard(_)
SumCard(C) == IF C = {} THEN 0 ELSE LET c == CHOOSE x \in C : TRUE IN Cardinality(c) + SumCard(C \ {c})
Deterministic == (s.st \in ByteStates /\ s.pos < 15) =>
  LET C == Classes(s) IN
  /\ UNION C = Bytes
  /\ SumCard(C) = 256
  /\ \A c \in C : c # {} /\ StepOn(s, CHOOSE b \in c : TRUE) = StepOn(s, CHOOSE b \in c : \A b2 \in c : b2 <= b)

\* progress: every non-terminal state has a successor and pos never decreases (checked as deadlock
\* freedom up to terminal states + this action property)
Progress == [][s'.pos >= s.pos]_vars

(***************************************************************************)
(* generator (X86LenGen): one template per complete path                    *)
(***************************************************************************)
Emit == (s.st = "Done") =>
  PrintT(ToJson([mode |-> s.mode, len |-> s.pos, slots |-> h, br |-> s.br, ipos |-> s.ipos, nimm |-> s.nimm,
                 ndisp |-> s.ndisp, map |-> s.map, kind |-> s.kind, opsize |-> s.opsize, adsize |-> s.adsize,
                 rex |-> s.rex, mod |-> s.mod]))
=============================================================================
