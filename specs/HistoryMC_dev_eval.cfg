CONSTANTS
  NBlocks = 6
  Regs = {"r1","r2","r3"}
  MaxLen = 5
  Dev = {"GlobalSfWrite","EvalSfWrite"}
  Gen = FALSE
  MaxOther = 5
INIT Init
NEXT Next
PROPERTY Stable
CHECK_DEADLOCK FALSE
