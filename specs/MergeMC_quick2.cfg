\* C19 M (quick): repaired merge, one-operation prefix and branches, widening on/off, threshold firing or not
CONSTANTS
  Regs = {"a"}
  Flags = {"f"}
  RB = 2
  Offsets = {0, 1}
  Sizes = {1, 2}
  Kinds = {1, 2}
  PPs = {2}
  MaxPre = 1
  MaxB = 1
  Widen = {FALSE, TRUE}
  Thr = {FALSE, TRUE}
  Conds = {0}
  Q = {}
  Gen = FALSE
INIT Init
NEXT Next
CHECK_DEADLOCK FALSE
INVARIANTS Covers Untouched KeysOK
