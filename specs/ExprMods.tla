------------------------------ MODULE ExprMods ------------------------------
(***************************************************************************)
(* C09 / C19 - the meaning of expression trees that contain `mem` nodes     *)
(* carrying `mods`, on top of specs/lib/Expr.tla (whose Eval answers        *)
(* Unknown for them).                                                       *)
(*                                                                          *)
(*   EvalM(e, env)  =  Expr!Eval(e, env, {})  except that a mem node is     *)
(*   "read together with its mods": the ordered list of <<location, value>> *)
(*   is replayed into a copy of env.mem - location and value read in env,   *)
(*   the value stored with the endianness of the load - and then the bytes  *)
(*   are read (the meaning mem.eval, expressions.py:1353, is supposed to    *)
(*   have). Unknown stays absorbing: an Unknown address, an Unknown mod, an *)
(*   unmapped byte make the result Unknown.                                 *)
(*   Trees from memory observations may also be  [k="raw", b=<<bytes>>]     *)
(*   (raw bytes in memory order, read as a little-endian value).            *)
(***************************************************************************)
EXTENDS Expr

RECURSIVE BytesBits(_)
BytesBits(bs) == IF bs = <<>> THEN <<>> ELSE ByteBits(Head(bs), 0) \o BytesBits(Tail(bs))

(* store the value v (bits, a whole number of bytes) at natural address ad   *)
StoreBits(mem, ad, v, en) ==
  LET n == Len(v) \div 8 new == {ad + j : j \in 0..(n - 1)} IN
  [a \in (DOMAIN mem) \cup new |->
     IF a \in new THEN (LET j == IF en = 1 THEN a - ad ELSE n - 1 - (a - ad) IN ToNat(Slice(v, 8 * j, 8)))
     ELSE mem[a]]

RECURSIVE EvalM(_, _), EvalMParts(_, _, _), ReplayM(_, _, _, _)
EvalM(e, env) ==
  CASE e.k = "cst" -> e.v
    [] e.k = "raw" -> BytesBits(e.b)
    [] e.k \in {"reg", "ext"} -> IF e.n \in DOMAIN env.regs THEN env.regs[e.n] ELSE Unknown
    [] e.k = "slc" -> LET x == EvalM(e.x, env) IN IF IsU(x) THEN Unknown ELSE Slice(x, e.pos, e.w)
    [] e.k = "xt" -> LET x == EvalM(e.x, env) IN
                     IF IsU(x) THEN Unknown ELSE IF e.sg = 1 THEN Sext(x, e.w) ELSE Zext(x, e.w)
    [] e.k = "comp" -> EvalMParts(e.parts, 1, env)
    [] e.k = "tst" -> LET c == EvalM(e.c, env) IN
                      IF IsU(c) THEN Unknown
                      ELSE IF c = <<1>> THEN EvalM(e.l, env) ELSE EvalM(e.r, env)
    [] e.k = "uop" -> LET r == EvalM(e.r, env) IN
                      IF IsU(r) THEN Unknown
                      ELSE (CASE e.s = "-" -> Neg(r) [] e.s = "~" -> Not(r) [] e.s = "+" -> r [] OTHER -> Unknown)
    [] e.k = "op" -> LET a == EvalM(e.l, env) b == EvalM(e.r, env) IN
                     IF IsU(a) \/ IsU(b) THEN Unknown ELSE BinOp(e, a, b, {})
    [] e.k = "ptr" -> LET b == EvalM(e.base, env) IN IF IsU(b) THEN Unknown ELSE Add(b, e.dv)
    [] e.k = "mem" -> LET a == EvalM(e.a, env) IN
                      IF IsU(a) THEN Unknown
                      ELSE LET ad == AddrNat(a) m2 == ReplayM(env.mem, e.mods, e.en, env) IN
                           IF ad < 0 \/ IsU(m2) THEN Unknown ELSE LoadR(m2, ad, e.w \div 8, e.en, 0)
    [] OTHER -> Unknown
EvalMParts(P, i, env) ==
  IF i > Len(P) THEN <<>>
  ELSE LET v == EvalM(P[i].t, env) IN
       IF IsU(v) THEN Unknown
       ELSE LET rest == EvalMParts(P, i + 1, env) IN IF IsU(rest) THEN Unknown ELSE v \o rest
ReplayM(mem, mods, en, env) ==
  IF mods = <<>> THEN mem
  ELSE LET a == EvalM(Head(mods).loc, env) v == EvalM(Head(mods).val, env) IN
       IF IsU(a) \/ IsU(v) \/ Len(v) % 8 # 0 THEN Unknown
       ELSE LET ad == AddrNat(a) IN
            IF ad < 0 THEN Unknown ELSE ReplayM(StoreBits(mem, ad, v, en), Tail(mods), en, env)

(* candidate set of a tree (C19): the alternatives of every vec met on the way down through  *)
(* vec / slc / comp / mem-through-a-vector-valued-pointer nodes; top, vecw and anything the     *)
(* reference semantics cannot value contribute Unknown                                         *)
RECURSIVE AltSet(_, _), AltParts(_, _, _)
AltSet(e, env) ==
  CASE e.k = "vec" -> UNION {AltSet(e.l[i], env) : i \in 1..Len(e.l)}
    [] e.k = "slc" -> {IF IsU(x) THEN Unknown ELSE Slice(x, e.pos, e.w) : x \in AltSet(e.x, env)}
    [] e.k = "comp" -> AltParts(e.parts, 1, env)
    [] e.k = "mem" /\ e.a.k = "ptr" /\ e.a.base.k = "vec" ->
         UNION {AltSet([e EXCEPT !.a = [e.a EXCEPT !.base = e.a.base.l[i]]], env) : i \in 1..Len(e.a.base.l)}
    [] OTHER -> {EvalM(e, env)}
AltParts(P, i, env) ==
  IF i > Len(P) THEN {<<>>}
  ELSE LET rest == AltParts(P, i + 1, env) IN
       {IF IsU(a) \/ IsU(b) THEN Unknown ELSE a \o b : a \in AltSet(P[i].t, env), b \in rest}
=============================================================================
