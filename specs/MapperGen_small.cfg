\* C09 G: every behaviour (configuration, pointer assignment, program of 3 micro-operations: <= 2 stores of a
\* register / constant / loaded register, <= 2 loads) of the small model, printed for replay on a real mapper
CONSTANTS
  Ptrs = {"p", "q"}
  Offs = {0, 1}
  Sizes = {1, 2}
  Deltas <- DeltasSmall
  P0 = 4
  Top = 10
  NAs = {FALSE, TRUE}
  MTs = {TRUE}
  Ens <- EnsBoth
  MInits = {0, 1}
  VKs = {"d", "c", "r"}
  MaxSt = 2
  MaxLd = 2
  MaxLen = 3
  Template <- NoTemplate
  Q = {}
  Clauses <- AllClauses
  Probe = FALSE
  PvInState = TRUE
  Gen = TRUE
INIT Init
NEXT Next
CHECK_DEADLOCK FALSE
CONSTRAINT Emit
