\* simulation, small widths, all call kinds, handles re-used freely
CONSTANTS
  Widths = {1, 2, 3, 4}
  MaxSteps = 6
  MaxW = 16
  FreshOnly = FALSE
  Ops = {"bin", "un", "slice", "compose", "cond", "ext", "simplify", "pickle", "mapw", "subst", "mset", "mget"}
  Shape <- ShapeAny
  LeafSet = {}
  AutoSimp = TRUE
  MapSpan = 6
  MapSrc = {}
  Rand = TRUE
INIT Init
NEXT Next
CHECK_DEADLOCK FALSE
