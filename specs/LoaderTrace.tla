------------------------------ MODULE LoaderTrace ------------------------------
(***************************************************************************)
(* C15, code -> spec: memory images recorded from amoco's loaders on real   *)
(* files, validated against Image(file bytes).                              *)
(* TRACE_FILE is NDJSON, one loaded program per line:                       *)
(*   [t, bytes, obs, exts, pc, fetch |-> [a, bytes]]                        *)
(* obs / exts as described in Loader.tla (ImageVerdicts); pc and fetch.a    *)
(* are digits (pc = <<>> when it is not a constant, fetch.bytes = <<>> when *)
(* no instruction was decoded).  One total verdict per line.                *)
(***************************************************************************)
EXTENDS Loader, Json, IOUtils

Files == ndJsonDeserialize(IOEnv.TRACE_FILE)
VARIABLES tid, done
vars == <<tid, done>>

PcVerdict(b, f) == IF f.pc = <<>> THEN "PcNotConstant" ELSE IF EqD(f.pc, Entry(b)) THEN "ok" ELSE "PcIsNotEntry"
FetchVerdict(b, f) == IF f.fetch.bytes = <<>> THEN "ok"
                      ELSE IF f.fetch.bytes = AtAddr(b, f.fetch.a, Len(f.fetch.bytes)) THEN "ok" ELSE "FetchedBytesDiffer"

Init == tid \in 1..Len(Files) /\ done = FALSE
Next == /\ ~done /\ done' = TRUE /\ UNCHANGED tid
        /\ LET f == Files[tid]  b == f.bytes IN
           IF ~HasIdent(b) THEN PrintT(ToJson([t |-> f.t, segs |-> <<>>, pc |-> "NotElf", fetch |-> "NotElf", entry |-> <<>>, nslots |-> 0]))
           ELSE LET S == AllSlots(b) IN
                PrintT(ToJson([t |-> f.t, segs |-> ImageVerdicts(Image(b), f.obs, f.exts, S, AW(ClsOf(b)), AsIsImage(b, 4096), "BssAsWithoutZeroFill"),
                               pc |-> PcVerdict(b, f), fetch |-> FetchVerdict(b, f), entry |-> Entry(b), nslots |-> Len(Slots(b))]))
Spec == Init /\ [][Next]_vars
=============================================================================
