CONSTANTS
  B = 4
  MemSize = 7
  PtrVals = {0,1}
  DataInit <- DataSmall
  MaxOps = 4
  Dev = "none"
  Gen = FALSE
  NoAls = {TRUE,FALSE}
  Endians = {"be"}
  Menu = {"regs","ld2","bump","slice","store","delayed"}
INIT Init
NEXT Next
INVARIANT Lockstep
CHECK_DEADLOCK FALSE
