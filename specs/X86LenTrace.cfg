\* C07 trace validation (reference binding + amoco judgement)
CONSTANTS
  Dev = "none"
  Modes = {32, 64}
  MaxPfx = 0
  PfxSeqs = {}
  Hist = FALSE
INIT TInit
NEXT TNext
CHECK_DEADLOCK FALSE
