\* exhaustive design check (thorough): one map, addresses 0..7, sizes 1..4, <= 4 actions
CONSTANTS
  MaxAddr = 7
  Sizes = {1, 2, 3, 4}
  MaxOps = 4
  Zones = {"none"}
  Maps = 1
  Shifts <- ShiftsA
  GenHist = FALSE
  Dev = {}
INIT Init
NEXT Next
INVARIANT Sorted
INVARIANT NonEmpty
INVARIANT Refines
CHECK_DEADLOCK FALSE
