\* C09 G: EVERY behaviour of a tiny model (little-endian, aliasing allowed, offset 0, sizes {1,2}, q - p in -2..2,
\* 2 stores then/around 1 load), replayed exhaustively in the thorough tier
CONSTANTS
  Ptrs = {"p", "q"}
  Offs = {0}
  Sizes = {1, 2}
  Deltas <- DeltasTiny
  P0 = 4
  Top = 10
  NAs = {FALSE}
  MTs = {TRUE}
  Ens <- EnsLE
  MInits = {0}
  VKs = {"d"}
  MaxSt = 2
  MaxLd = 1
  MaxLen = 3
  Template <- NoTemplate
  Q = {}
  Clauses <- AllClauses
  Probe = FALSE
  PvInState = TRUE
  Gen = TRUE
INIT Init
NEXT Next
CHECK_DEADLOCK FALSE
CONSTRAINT Emit
