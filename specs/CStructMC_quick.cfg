\* M (quick, flat): every struct / packed struct / union of <= 3 fields over one type per size class
\* (1, 2, 4, 8, pointer, byte string), scalars and arrays of 3, both pointer sizes:
\* layout invariants, |Pack| = SizeOf, Unpack(Pack(v)) = v, Pack(Unpack(b)) = b
CONSTANTS
  RawT = {"B", "h", "I", "q", "P", "s"}
  ArrN = {3}
  Ords = {""}
  DefOrds = {""}
  DefKinds = {"struct", "packed", "union"}
  MaxF = 3
  MaxIF = 0
  MinF = 1
  MaxDepth = 0
  Feat = {}
  BitSplits <- BitSplitsNone
  PS = {32, 64}
  VCs = {"pat"}
  Dev = {}
  Mode = "mc"
INIT Init
NEXT Next
INVARIANT LayoutOK
INVARIANT SizeOK
INVARIANT RoundTrip
INVARIANT Monotone
CHECK_DEADLOCK FALSE
