----------------------------- MODULE X86LenTrace -----------------------------
(***************************************************************************)
(* C07, trace validation. TRACE_FILE is NDJSON, one record per line:        *)
(*   t    record id                                                         *)
(*   m    mode (32 | 64)                                                    *)
(*   b    the byte string (<= 15 bytes)                                     *)
(*   live 1: the references were consulted for this string (vendored table  *)
(*        or live tools); 0: they were not (tools absent)                   *)
(*   rl   length both references report, -1 when either rejects or they     *)
(*        disagree (then the string is outside the property)                *)
(*   rb   1 when both references print a direct branch target               *)
(*   rd   (target - address - rl) mod 2^64 as four 16-bit limbs             *)
(*   al   instruction.length reported by amoco, -1 when amoco does not      *)
(*        decode the string (None or exception), -2 when amoco was not run  *)
(*        (reference-binding pass)                                          *)
(*   ab   1 when operands[0] of amoco's instruction is a constant           *)
(*   ad   that constant's raw value (v masked to its size), four limbs      *)
(*   as   that constant's size in bits                                      *)
(*   tl   length TLC put in the generator template the string was made      *)
(*        from, -1 when the string does not come from a template            *)
(*                                                                          *)
(* Every record gets exactly one verdict (one TLC initial state per record; *)
(* the number of distinct states is compared with the number of records).   *)
(* Verdicts other than plain "ok / in domain" are printed.                  *)
(*   binding clauses (specification vs references; a failure discredits the *)
(*   specification, not amoco):  RefLen RefBranch RefDisp Template          *)
(*   property clauses:           Length Disp                                *)
(* A property failure carries attr = the first named amoco deviation        *)
(* (X86Len.AmocoDevs) under which the specification reproduces amoco's      *)
(* answer, or "none" (unattributed: a new violation).                       *)
(***************************************************************************)
EXTENDS X86Len, IOUtils

Traces == ndJsonDeserialize(IOEnv.TRACE_FILE)

VARIABLES i, verdict
tvars == <<i, verdict>>

Zero4 == <<0, 0, 0, 0>>

\* v (limbs, masked to size bits) sign-extended to 64 bits
SignExt(l, size) ==
  CASE size = 8  -> IF l[1] >= 128 THEN <<65280 + l[1], 65535, 65535, 65535>> ELSE <<l[1], 0, 0, 0>>
    [] size = 16 -> IF l[1] >= 32768 THEN <<l[1], 65535, 65535, 65535>> ELSE <<l[1], 0, 0, 0>>
    [] size = 32 -> IF l[2] >= 32768 THEN <<l[1], l[2], 65535, 65535>> ELSE <<l[1], l[2], 0, 0>>
    [] size = 64 -> <<l[1], l[2], l[3], l[4]>>
    [] OTHER -> <<-1, -1, -1, -1>>

\* two limb vectors agree on the low w bits (w in {16, 32, 64})
AgreeLow(x, y, w) ==
  CASE w = 16 -> x[1] = y[1]
    [] w = 32 -> x[1] = y[1] /\ x[2] = y[2]
    [] OTHER  -> x = y

Judge(r) ==
  LET d      == Decode(r.b, r.m)
      done   == d.st = "Done"
      sd     == IF done /\ d.br THEN DispLimbs(r.b, d) ELSE Zero4
      \* width of the instruction pointer the references truncate the target to
      w      == IF d.opsize = 16 THEN 16 ELSE r.m
      refok  == r.rl >= 0
      binding ==
        IF r.tl >= 0 /\ ~(done /\ d.pos = r.tl) THEN "Template"
        ELSE IF refok /\ done /\ d.pos # r.rl THEN "RefLen"
        ELSE IF refok /\ done /\ d.br # (r.rb = 1) THEN "RefBranch"
        ELSE IF refok /\ done /\ d.br /\ ~AgreeLow(r.rd, sd, w) THEN "RefDisp"
        ELSE "ok"
      \* the expected length: the references' when they were consulted, the specification's otherwise
      hasexp == IF r.live = 1 THEN refok ELSE done
      explen == IF r.live = 1 THEN r.rl ELSE d.pos
      branch == IF done THEN d.br ELSE FALSE
      prop ==
        IF r.al < 0 \/ ~hasexp THEN "ok"
        ELSE IF r.al # explen THEN "Length"
        ELSE IF branch /\ (r.ab # 1 \/ SignExt(r.ad, r.as) # sd) THEN "Disp"
        ELSE "ok"
      dom == IF done THEN "in" ELSE IF refok THEN "out" ELSE "none"
      \* attribution of a property failure to a named amoco deviation: the specification with exactly that
      \* deviation enabled reproduces what amoco reported
      \* (for a string outside the claimed domain - the references agree on it but the table marks its prefix
      \* column invalid - the lenient decoder is used, provided it reproduces the references' length)
      base == IF done THEN d ELSE DecodeLenient(r.b, r.m, "none")
      Explains(D) ==
        LET dd == IF done THEN DecodeDev(r.b, r.m, D) ELSE DecodeLenient(r.b, r.m, D) IN
        /\ base.st = "Done" /\ (r.live = 1 => base.pos = r.rl)
        /\ dd.st = "Done" /\ dd.pos = r.al
        /\ (prop = "Disp" => (dd.br /\ r.ab = 1 /\ SignExt(r.ad, r.as) = DispLimbs(r.b, dd)))
        \* ... and the deviation is what makes the difference on this string
        /\ (dd.pos # base.pos \/ (dd.br /\ base.br /\ DispLimbs(r.b, dd) # DispLimbs(r.b, base)))
      cands == IF prop = "ok" THEN <<>> ELSE SelectSeq(AmocoDevs, Explains)
      attr == IF Len(cands) > 0 THEN cands[1] ELSE "none"
  IN [t |-> r.t, bind |-> binding, prop |-> prop, dom |-> dom, st |-> d.st, attr |-> attr,
      p66 |-> d.p66, p67 |-> d.p67, rexw |-> (d.rex >= 8), mod |-> d.mod, rm |-> d.rm, sib |-> d.sib,
      kind |-> d.kind, map |-> d.map,
      sl |-> IF done THEN d.pos ELSE -1, sbr |-> branch, sd |-> sd,
      judged |-> (r.al >= 0 /\ hasexp), dj |-> (r.al >= 0 /\ hasexp /\ r.al = explen /\ branch)]

Report(v) ==
  IF v.bind = "ok" /\ v.prop = "ok" /\ v.dom = "in" /\ ~v.dj THEN TRUE
  ELSE PrintT(ToJson(v))

TInit == /\ s = Init0(64, "none") /\ h = <<>>
         /\ i \in 1..Len(Traces)
         /\ verdict = Judge(Traces[i])
         /\ Report(verdict)
TNext == UNCHANGED <<tvars, vars>>
=============================================================================
