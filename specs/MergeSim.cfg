\* C19 G (-simulate): prefix <= 2, branches <= 3 operations, two registers, two flags, offsets 0..4, sizes {1,2,4},
\* six value kinds, widening, threshold, path conditions
CONSTANTS
  Regs = {"a", "b"}
  Flags = {"f", "g"}
  RB = 4
  Offsets = {0, 1, 2, 3, 4}
  Sizes = {1, 2, 4}
  Kinds = {1, 2, 3, 4, 5, 6}
  PPs = {2}
  MaxPre = 2
  MaxB = 3
  Widen = {FALSE, TRUE}
  Thr = {FALSE, TRUE}
  Conds = {0, 1, 2, 3}
  Q = {}
  Gen = TRUE
INIT Init
NEXT Next
CHECK_DEADLOCK FALSE
CONSTRAINT Emit
