\* C15 self-test: page start taken from p_offset instead of p_vaddr violates Refines
CONSTANTS
  Dev = "AddrFromOffset"
  Classes = {32}
  Seeds = {7}
  PageSizes = {16, 64, 4096}
  MaxSeg = 2
  Relations = {"apart", "adjacent", "samepage"}
  Tails = {"none", "inpage", "beyond"}
INIT Init
NEXT Next
INVARIANT Refines

CHECK_DEADLOCK FALSE
