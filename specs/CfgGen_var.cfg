\* behaviour generator (thorough): streams of 3..4 instructions of 1..3 units, n/c, every order of <= 4 domain blocks
CONSTANTS
  MinN = 3
  MaxN = 4
  Lens = {1, 2, 3}
  Flags = {"n", "c"}
  MaxIns = 4
  MaxLinks = 0
  MaxRe = 0
  Wide = FALSE
  GenHist = TRUE
  Dev = {}
INIT Init
NEXT Next
CONSTRAINT Emit
CHECK_DEADLOCK FALSE
