\* exhaustive design check (quick): streams of 1..3 instructions of 1..3 bytes, every n/c/d flag placement, <= 3 insertions, 1 link
CONSTANTS
  MinN = 1
  MaxN = 3
  Lens = {1, 2, 3}
  Flags = {"n", "c", "d"}
  MaxIns = 3
  MaxLinks = 1
  MaxRe = 0
  Wide = FALSE
  GenHist = FALSE
  Dev = {}
INIT Init
NEXT Next
INVARIANT Disjoint
INVARIANT Covers
INVARIANT FallThrough
INVARIANT NoRaise
INVARIANT NoOverlay
INVARIANT BlocksAreMaximalRuns
CHECK_DEADLOCK FALSE
