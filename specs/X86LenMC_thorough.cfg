\* C07 design check, thorough: up to 2 legacy prefixes (+ REX)
CONSTANTS
  Dev = "none"
  Modes = {32, 64}
  MaxPfx = 2
  PfxSeqs = {}
  Hist = FALSE
INIT Init
NEXT NextF
INVARIANTS TypeOK LenBound DispRule DispRule3 ImmRule Deterministic
PROPERTY Progress
