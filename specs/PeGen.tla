--------------------------------- MODULE PeGen ---------------------------------
(***************************************************************************)
(* C14 / C15 (PE): generator of header sets - PE32 and PE32+, e_lfanew,     *)
(* 0..16 data directories, optional-header padding (SizeOfOptionalHeader    *)
(* larger than the structure), 0..MaxSec sections whose raw size is larger  *)
(* than, equal to, smaller than the virtual size, or zero - with the design *)
(* check Report(Encode(A)) = Expected(A) and the emission for the replayers.*)
(***************************************************************************)
EXTENDS Pe, Json

CONSTANTS Pluses, Seeds, MaxSec, DirCounts, OptPads, Aligns, RawKinds

VARIABLES st, A, rnd, cur
vars == <<st, A, rnd, cur>>

Rb(x, k)    == RndByte(LcgAt(x, k))
Rd(x, k, w) == Tup([i \in 1..w |-> Rb(x, k + i)])
Adv(x)      == LcgAt(x, 61)
SeedRange   == 0..127
Up(c, a)    == ((c + a - 1) \div a) * a

Empty == [plus |-> FALSE, lfanew |-> 64, coff |-> <<>>, opt |-> <<>>, dirs |-> <<>>, secs |-> <<>>, stub |-> <<>>,
          size |-> 0, fill |-> 0, align |-> 16, optpad |-> 0, nextrva |-> 0]

Init == /\ st = "hdr" /\ rnd \in Seeds /\ cur = 0
        /\ \E p \in Pluses : A = [Empty EXCEPT !.plus = p]

\* everything but the section-dependent fields; they are completed in Finish
Header ==
  /\ st = "hdr"
  /\ \E nd \in DirCounts, pad \in OptPads, al \in Aligns :
       LET plus   == A.plus
           lfa    == 64 + 8 * (Rb(rnd, 1) % 12)
           base   == IF plus /\ Rb(rnd, 2) % 2 = 0 THEN <<0, 0, Rb(rnd, 3) % 64, 64, 1, 0, 0, 0>>
                     ELSE Widen(<<0, 0, 64 + (Rb(rnd, 3) % 64), Rb(rnd, 4) % 64>>, PW(plus))
           dirs   == Tup([k \in 1..nd |-> IF k \in {2, 10, 11} THEN [RVA |-> <<0, 0, 0, 0>>, Size |-> <<0, 0, 0, 0>>]
                                          ELSE [RVA |-> Rd(rnd, 5 + 2 * k, 2) \o <<0, 0>>, Size |-> <<Rb(rnd, 6 + 2 * k), 0, 0, 0>>]])
           opt0   == [nm \in Names(OptL(plus)) |->
                        LET w == OptL(plus)[CHOOSE j \in DOMAIN OptL(plus) : OptL(plus)[j].n = nm].w
                            k == CHOOSE j \in DOMAIN OptL(plus) : OptL(plus)[j].n = nm
                        IN Widen(Rd(rnd, k, Min2(w, 2)), w)]
           opt    == [opt0 EXCEPT !.Magic = IF plus THEN <<11, 2>> ELSE <<11, 1>>, !.ImageBase = base,
                                  !.SectionAlignment = Digits(al, 4), !.FileAlignment = Digits(al, 4),
                                  !.NumberOfRvaAndSizes = Digits(nd, 4),
                                  !.SizeOfStackReserve = Widen(<<0, Rb(rnd, 40) % 32>>, PW(plus)),
                                  !.SizeOfStackCommit = Widen(<<0, 16>>, PW(plus))]
           coff   == [Machine |-> IF plus THEN <<100, 134>> ELSE <<76, 1>>, NumberOfSections |-> <<0, 0>>,
                      TimeDateStamp |-> Rd(rnd, 41, 4), PointerToSymbolTable |-> <<0, 0, 0, 0>>, NumberOfSymbols |-> <<0, 0, 0, 0>>,
                      SizeOfOptionalHeader |-> Digits(SizeOf(OptL(plus)) + 8 * nd + pad, 2),
                      Characteristics |-> <<2 + 32 * (Rb(rnd, 45) % 2), 1>>]
       IN A' = [A EXCEPT !.lfanew = lfa, !.opt = opt, !.coff = coff, !.dirs = dirs, !.stub = Rd(rnd, 50, 58),
                         !.fill = LcgAt(rnd, 7), !.align = al, !.optpad = pad, !.nextrva = al]
  /\ rnd' = Adv(rnd) /\ st' = "sec" /\ UNCHANGED cur

HdrEnd(B, nsec) == B.lfanew + 24 + ToNat(B.coff.SizeOfOptionalHeader) + SecSize * nsec
SecName(x) == LET n == 1 + (Rb(x, 1) % 8) IN Widen(<<46>> \o Tup([i \in 1..(n - 1) |-> 97 + (Rb(x, 1 + i) % 26)]), 8)
\* raw kinds: "pad" raw size = virtual size rounded up to the alignment; "eq"; "short" raw < virtual (zero tail); "none" no raw data
AddSec ==
  /\ st = "sec" /\ Len(A.secs) < MaxSec
  /\ \E rk \in RawKinds :
       LET vs  == 1 + (Rb(rnd, 10) % 90) + (IF Rb(rnd, 11) % 5 = 0 THEN A.align ELSE 0)
           raw == CASE rk = "pad" -> Up(vs, A.align) [] rk = "eq" -> vs [] rk = "short" -> vs \div 2 [] OTHER -> 0
           hdr == [Name |-> SecName(LcgAt(rnd, 12)), VirtualSize |-> Digits(vs, 4), RVA |-> Digits(A.nextrva, 4),
                   SizeOfRawData |-> Digits(raw, 4), PointerToRawData |-> <<0, 0, 0, 0>>,
                   PointerToRelocations |-> <<0, 0, 0, 0>>, PointerToLineNumbers |-> <<0, 0, 0, 0>>,
                   NumberOfRelocations |-> <<0, 0>>, NumberOfLineNumbers |-> <<0, 0>>,
                   Characteristics |-> <<32 + 64 * (Rb(rnd, 21) % 2), 0, 0, 96 + 128 * (Rb(rnd, 22) % 2)>>]
       IN A' = [A EXCEPT !.secs = Append(@, [hdr |-> hdr, data |-> Rd(LcgAt(rnd, 23), 0, raw)]),
                         !.nextrva = A.nextrva + Up(vs, A.align)]
  /\ rnd' = Adv(rnd) /\ UNCHANGED <<st, cur>>

RECURSIVE Place(_, _, _, _)       \* assign file positions to the section data from cursor c (aligned)
Place(secs, k, c, al) ==
  IF k > Len(secs) THEN <<>>
  ELSE LET n == Len(secs[k].data)
           p == IF n = 0 THEN 0 ELSE Up(c, al)
       IN << [secs[k] EXCEPT !.hdr.PointerToRawData = Digits(p, 4)] >> \o Place(secs, k + 1, IF n = 0 THEN c ELSE p + n, al)
Finish ==
  /\ st = "sec"
  /\ LET nsec == Len(A.secs)
         hend == HdrEnd(A, nsec)
         secs == Place(A.secs, 1, hend, A.align)
         endf == IF \E k \in DOMAIN secs : Len(secs[k].data) > 0
                 THEN LET K == {k \in DOMAIN secs : Len(secs[k].data) > 0}  k == CHOOSE k \in K : \A j \in K : j <= k
                      IN ToNat(secs[k].hdr.PointerToRawData) + Len(secs[k].data)
                 ELSE hend
         ep   == IF nsec = 0 THEN Digits(A.align, 4) ELSE AddN(secs[1].hdr.RVA, Rb(rnd, 30) % ToNat(secs[1].hdr.VirtualSize))
     IN A' = [A EXCEPT !.secs = secs, !.coff.NumberOfSections = Digits(nsec, 2),
                       !.opt.AddressOfEntryPoint = ep, !.opt.SizeOfImage = Digits(A.nextrva, 4),
                       !.opt.SizeOfHeaders = Digits(Up(hend, A.align), 4),
                       !.size = endf + (Rb(rnd, 31) % 24)]
  /\ rnd' = Adv(rnd) /\ st' = "done" /\ UNCHANGED cur
Next == Header \/ AddSec \/ Finish
Spec == Init /\ [][Next]_vars

RoundTrip == st = "done" => Disjoint(A) /\ Report(Encode(A)) = Expected(A)

RECURSIVE SeqOfSet(_)
SeqOfSet(S) == IF S = {} THEN <<>> ELSE LET m == CHOOSE x \in S : TRUE IN <<m>> \o SeqOfSet(S \ {m})
QueryRvas(R) == {<<0, 0, 0, 0>>, R.opt.AddressOfEntryPoint, R.opt.SizeOfImage} \cup
  UNION {LET s == R.secs[i] IN
         { SubD(s.RVA, <<1>>), s.RVA, AddD(s.RVA, SubD(s.SizeOfRawData, <<1>>)), AddD(s.RVA, s.SizeOfRawData),
           AddD(s.RVA, SubD(s.VirtualSize, <<1>>)), AddD(s.RVA, s.VirtualSize) } : i \in DOMAIN R.secs}
Emit == st = "done" =>
  LET b == Encode(A)  R == Report(b)  Q == SeqOfSet(QueryRvas(R)) IN
  PrintT(ToJson([plus |-> A.plus, bytes |-> b, expect |-> R, rt |-> (R = Expected(A)) /\ Disjoint(A),
                 queries |-> Tup([k \in 1..Len(Q) |-> Query(R, Q[k])]),
                 image |-> Image(b), atentry |-> AtAddr(b, R.entry, 16), nfile |-> FileBackedFrom(b, R.entry), asis |-> AsIsImage(b), align |-> A.align, optpad |-> A.optpad]))
=============================================================================
