------------------------------ MODULE IspecLang ------------------------------
(***************************************************************************)
(* C03 - the ispec bit-pattern format language (amoco/arch/core.py).       *)
(*                                                                         *)
(* Pure operators, no constants, no variables; used by                     *)
(*   Ispec.tla       (M: internal invariants on generated formats,         *)
(*                    G: generator of formats + instruction words)         *)
(*   IspecTrace.tla  (T: validation of layouts / decodes dumped from the   *)
(*                    real ispec objects)                                  *)
(*                                                                         *)
(* A format string is a sequence of code points (TLC strings cannot be     *)
(* indexed).  Three layers:                                                *)
(*   Parse(s)       scannerless recursive descent for                      *)
(*                  LEN ('<'|'>')? '[' (directive | fixed)+ ']' '+'? '&'?  *)
(*                  (the pyparsing grammar `specdecode`, blanks skipped    *)
(*                  before every token, maximal munch for symbols/numbers) *)
(*   Ia32Expand(s)  the '/r' '/digit' ModRM macro of ispec_ia32            *)
(*   Doc(ast)       the DOCUMENTED meaning: bit b of the instruction word  *)
(*                  is what the directive at that position says           *)
(*   Impl(ast)      ispec.buildspec transcribed statement by statement     *)
(*                  (running index i, count, chklen, error reports)        *)
(* The binding to amoco always uses Doc (the property is about the         *)
(* documented meaning); Impl exists so that TLC can compare the algorithm  *)
(* with the documentation on every small format (Ispec.tla).               *)
(*                                                                         *)
(* Bit numbering: bit 0 is the least significant bit of the instruction    *)
(* word; with a little-endian fetch the word is the first size/8 bytes     *)
(* read as a little-endian number, a big-endian fetch reverses those bytes *)
(* first.  A '*'-length spec is followed by all remaining input bytes,     *)
(* appended above bit size-1 (little-endian fetch only).                   *)
(***************************************************************************)
EXTENDS Integers, Sequences, FiniteSets

-----------------------------------------------------------------------------
(* generic helpers *)
Rev(s) == [i \in 1..Len(s) |-> s[Len(s) + 1 - i]]
RECURSIVE SumTo(_, _)
SumTo(f, n) == IF n = 0 THEN 0 ELSE f[n] + SumTo(f, n - 1)
RECURSIVE FlatFrom(_, _)
FlatFrom(ss, k) == IF k > Len(ss) THEN <<>> ELSE ss[k] \o FlatFrom(ss, k + 1)
Flat(ss) == FlatFrom(ss, 1)
Rep(x, n) == [i \in 1..n |-> x]
P2 == <<1, 2, 4, 8, 16, 32, 64, 128>>
BitOf(v, t) == (v \div P2[t + 1]) % 2                    \* t in 0..7
ByteBits(v) == [t \in 1..8 |-> BitOf(v, t - 1)]          \* LSB first
RECURSIVE TrimHi(_)
TrimHi(b) == IF Len(b) > 0 /\ b[Len(b)] = 0 THEN TrimHi(SubSeq(b, 1, Len(b) - 1)) ELSE b
RangeOf(s) == {s[i] : i \in DOMAIN s}

-----------------------------------------------------------------------------
(* code points *)
cSP == 32   cHASH == 35  cAMP == 38  cLP == 40   cRP == 41  cSTAR == 42  cPLUS == 43
cDASH == 45 cDOT == 46   cSLASH == 47 c0 == 48   c1 == 49   cLT == 60    cEQ == 61
cGT == 62   cLB == 91    cRB == 93   cUND == 95  cLC == 123 cRC == 125   cTILDE == 126

IsWs(c)    == c \in {32, 9, 10, 13}
IsDigit(c) == c \in 48..57
IsSym0(c)  == c \in 65..90 \/ c \in 97..122 \/ c = 95
IsSymC(c)  == IsSym0(c) \/ IsDigit(c)
IsHex(c)   == IsDigit(c) \/ c \in 65..70 \/ c \in 97..102
HexVal(c)  == IF IsDigit(c) THEN c - 48 ELSE IF c \in 65..70 THEN c - 55 ELSE c - 87
At(s, p)   == IF p >= 1 /\ p <= Len(s) THEN s[p] ELSE 0

RECURSIVE SkipWs(_, _)
SkipWs(s, p) == IF p <= Len(s) /\ IsWs(s[p]) THEN SkipWs(s, p + 1) ELSE p
RECURSIVE DigitsEnd(_, _)
DigitsEnd(s, p) == IF p <= Len(s) /\ IsDigit(s[p]) THEN DigitsEnd(s, p + 1) ELSE p
RECURSIVE SymEnd(_, _)
SymEnd(s, p) == IF p <= Len(s) /\ IsSymC(s[p]) THEN SymEnd(s, p + 1) ELSE p
RECURSIVE NumVal(_, _, _)
NumVal(s, p, q) == IF q <= p THEN 0 ELSE 10 * NumVal(s, p, q - 1) + (s[q - 1] - 48)

OptName(c) == CASE c = cDOT -> "." [] c = cTILDE -> "~" [] c = cHASH -> "#" [] c = cEQ -> "=" [] OTHER -> ""

-----------------------------------------------------------------------------
(* Parse *)
(* length  ::= [1-9][0-9]* | '0' | '1' | '*'      ('*' is reported as -1)  *)
ParseLength(s, p0) ==
  LET p == SkipWs(s, p0)
      c == At(s, p)
  IN  IF c \in 49..57
      THEN LET q == DigitsEnd(s, p)
           IN IF q - p > 6 THEN [ok |-> FALSE, p |-> p, v |-> 0]
              ELSE [ok |-> TRUE, p |-> q, v |-> NumVal(s, p, q)]
      ELSE IF c = c0 THEN [ok |-> TRUE, p |-> p + 1, v |-> 0]
      ELSE IF c = cSTAR THEN [ok |-> TRUE, p |-> p + 1, v |-> -1]
      ELSE [ok |-> FALSE, p |-> p, v |-> 0]

(* every directive is a record of the same shape                            *)
(*   k   "bit" | "dc" | "byte" | "fld"                                     *)
(*   v   value of a fixed bit / byte                                       *)
(*   opt "" | "." | "~" | "#" | "="    name <<code points>>    n  length,  *)
(*       -1 for "( * )"                                                       *)
DBit(v)          == [k |-> "bit", v |-> v, opt |-> "", name |-> <<>>, n |-> 1]
DDc              == [k |-> "dc", v |-> 0, opt |-> "", name |-> <<>>, n |-> 1]
DByte(v)         == [k |-> "byte", v |-> v, opt |-> "", name |-> <<>>, n |-> 8]
DFld(o, name, n) == [k |-> "fld", v |-> 0, opt |-> o, name |-> name, n |-> n]

(* one item at p0: [ok, p, d]                                               *)
ParseItem(s, p0) ==
  LET p == SkipWs(s, p0)
      c == At(s, p)
      hasopt == c \in {cDOT, cTILDE, cHASH, cEQ}
      p1 == IF hasopt THEN p + 1 ELSE p
      p2 == SkipWs(s, p1)
      none == [ok |-> FALSE, p |-> p0, d |-> DDc]
  IN  IF IsSym0(At(s, p2))
      THEN LET q  == SymEnd(s, p2)
               nm == SubSeq(s, p2, q - 1)
               p3 == SkipWs(s, q)
               L  == IF At(s, p3) = cLP THEN ParseLength(s, p3 + 1) ELSE [ok |-> FALSE, p |-> q, v |-> 0]
               p4 == IF L.ok THEN SkipWs(s, L.p) ELSE q
               loc == L.ok /\ At(s, p4) = cRP
           IN  [ok |-> TRUE, p |-> IF loc THEN p4 + 1 ELSE q,
                d |-> DFld(IF hasopt THEN OptName(c) ELSE "", nm, IF loc THEN L.v ELSE 1)]
      ELSE IF hasopt THEN none
      ELSE IF c = cLC /\ IsHex(At(s, p + 1)) /\ IsHex(At(s, p + 2)) /\ At(s, p + 3) = cRC
           THEN [ok |-> TRUE, p |-> p + 4, d |-> DByte(16 * HexVal(s[p + 1]) + HexVal(s[p + 2]))]
      ELSE IF c \in {c0, c1} THEN [ok |-> TRUE, p |-> p + 1, d |-> DBit(c - 48)]
      ELSE IF c = cDASH THEN [ok |-> TRUE, p |-> p + 1, d |-> DDc]
      ELSE none

RECURSIVE ParseItems(_, _, _)
ParseItems(s, p, acc) ==
  LET r == ParseItem(s, p)
  IN  IF r.ok THEN ParseItems(s, r.p, Append(acc, r.d)) ELSE [p |-> p, ds |-> acc]

BadAst == [ok |-> FALSE, len |-> 0, dir |-> "<", dirs |-> <<>>, plus |-> FALSE, amp |-> FALSE]

Parse(s) ==
  LET L  == ParseLength(s, 1)
      pa == SkipWs(s, L.p)
      hasdir == At(s, pa) \in {cLT, cGT}
      dir == IF At(s, pa) = cGT THEN ">" ELSE "<"
      pb == SkipWs(s, IF hasdir THEN pa + 1 ELSE pa)
      I  == ParseItems(s, pb + 1, <<>>)
      pc == SkipWs(s, I.p)
      pd == SkipWs(s, pc + 1)
      plus == At(s, pd) = cPLUS
      pe == SkipWs(s, IF plus THEN pd + 1 ELSE pd)
      amp == At(s, pe) = cAMP
      pf == SkipWs(s, IF amp THEN pe + 1 ELSE pe)
  IN  IF ~L.ok \/ At(s, pb) # cLB THEN BadAst
      ELSE IF Len(I.ds) = 0 \/ At(s, pc) # cRB \/ pf # Len(s) + 1 THEN BadAst
      ELSE [ok |-> TRUE, len |-> L.v, dir |-> dir, dirs |-> I.ds, plus |-> plus, amp |-> amp]

-----------------------------------------------------------------------------
(* ispec_ia32: the first '/' at 0-based index n with 0 < n < len-1 selects  *)
(* the macro character c = s[n+1]; EVERY occurrence of "/c" is replaced.    *)
RECURSIVE FindFrom(_, _, _)
FindFrom(s, c, p) == IF p > Len(s) THEN 0 ELSE IF s[p] = c THEN p ELSE FindFrom(s, c, p + 1)

Str_RM3  == <<82, 77, 40, 51, 41>>                             \* RM(3)
Str_REG3 == <<82, 69, 71, 40, 51, 41>>                         \* REG(3)
Str_MOD2 == <<77, 111, 100, 40, 50, 41>>                       \* Mod(2)
Str_DATA == <<126, 100, 97, 116, 97, 40, 42, 41>>              \* ~data( * )
Ia32Repl(c) == Str_RM3 \o <<32>> \o
               (IF c = 114 THEN Str_REG3
                ELSE [t \in 1..3 |-> 48 + BitOf(c - 48, t - 1)]) \* str(Bits(d,3)): LSB first
               \o <<32>> \o Str_MOD2 \o <<32>> \o Str_DATA

RECURSIVE ReplaceAll(_, _, _, _)
ReplaceAll(s, c, repl, p) ==
  IF p > Len(s) THEN <<>>
  ELSE IF s[p] = cSLASH /\ At(s, p + 1) = c THEN repl \o ReplaceAll(s, c, repl, p + 2)
  ELSE <<s[p]>> \o ReplaceAll(s, c, repl, p + 1)

Ia32Macro(s) ==     \* 0: no macro, else the macro character (code point)
  LET n1 == FindFrom(s, cSLASH, 1)      \* 1-based; python n = n1 - 1
  IN IF n1 > 1 /\ n1 < Len(s) THEN s[n1 + 1] ELSE 0
Ia32Valid(s) == Ia32Macro(s) = 0 \/ Ia32Macro(s) = 114 \/ Ia32Macro(s) \in 48..55
Ia32Expand(s) ==
  LET c == Ia32Macro(s) IN IF c = 0 THEN s ELSE ReplaceAll(s, c, Ia32Repl(c), 1)

-----------------------------------------------------------------------------
(* The documented meaning                                                   *)
(*                                                                          *)
(* L(ast) = the directive list from the least significant end: the list    *)
(* itself for '>', reversed for '<' (directives are written MSB first).     *)
IsEq(d)   == d.k = "fld" /\ d.opt = "="
IsStar(d) == d.k = "fld" /\ d.n = -1
Adv(d)    == IF IsEq(d) \/ IsStar(d) THEN 0 ELSE d.n     \* bits a directive claims
LsbFirst(ast) == IF ast.dir = ">" THEN ast.dirs ELSE Rev(ast.dirs)

(* Start(ds)[j] = number of bits claimed by the directives below directive j *)
RECURSIVE StartsFrom(_, _, _)
StartsFrom(ds, j, acc) == IF j > Len(ds) THEN <<acc>> ELSE <<acc>> \o StartsFrom(ds, j + 1, acc + Adv(ds[j]))
Starts(ds) == StartsFrom(ds, 1, 0)

FieldForm(d) == [dest |-> IF d.opt = "." THEN "attr" ELSE "arg",
                 repr |-> IF d.opt = "~" THEN "bits" ELSE IF d.opt = "#" THEN "str" ELSE "int"]

Doc(ast) ==
  LET ds    == LsbFirst(ast)
      n     == Len(ds)
      st    == Starts(ds)
      claimed == st[n + 1]
      var   == ast.len = -1
      size  == IF var THEN claimed ELSE ast.len
      stars == {j \in 1..n : IsStar(ds[j])}
      flds  == {j \in 1..n : ds[j].k = "fld"}
      NameClash == \E i, j \in flds : i < j /\ ds[i].name = ds[j].name
                                      /\ FieldForm(ds[i]).dest = FieldForm(ds[j]).dest
      EqOk(j) == IF ast.dir = ">" THEN st[j] - ds[j].n >= 0 ELSE st[j] + ds[j].n <= size
      wf == /\ ast.ok
            /\ size >= 8 /\ size % 8 = 0
            /\ Cardinality(stars) <= 1
            /\ \A j \in stars : j = n /\ ds[j].opt # "="       \* the star field takes the most significant end
            /\ IF var THEN TRUE
               ELSE IF stars = {} THEN claimed = size ELSE claimed < size
            /\ \A j \in 1..n : (~var) => st[j] < size              \* every directive starts inside the word
            /\ \A j \in flds : IsEq(ds[j]) => EqOk(j)
            /\ ~NameClash
      \* what each bit of the word must be: 0, 1 or 2 (= free)
      PatOf(j) == LET d == ds[j] IN
                  CASE d.k = "bit"  -> <<d.v>>
                    [] d.k = "dc"   -> <<2>>
                    [] d.k = "byte" -> ByteBits(d.v)              \* natural significance, either direction
                    [] OTHER        -> IF IsEq(d) THEN <<>>
                                       ELSE IF IsStar(d) THEN (IF var THEN <<>> ELSE Rep(2, size - claimed))
                                       ELSE Rep(2, d.n)
      pat == Flat([j \in 1..n |-> PatOf(j)])
      FieldOf(j) == LET d == ds[j] IN
                    [name |-> d.name, dest |-> FieldForm(d).dest, repr |-> FieldForm(d).repr,
                     rev  |-> (d.opt = "#" /\ ast.dir = "<"),       \* the string is in format reading order
                     lo   |-> IF IsEq(d) /\ ast.dir = ">" THEN st[j] - d.n ELSE st[j],
                     hi   |-> IF IsStar(d) THEN -1   \* open: to the end of the word (and of the tail)
                              ELSE IF IsEq(d) /\ ast.dir = ">" THEN st[j] ELSE st[j] + d.n]
  IN [wf |-> wf, size |-> size, var |-> var,
      pfx |-> IF ast.amp THEN "xdata" ELSE IF ast.plus THEN "prefix" ELSE "none",
      pat |-> pat,
      fields |-> {FieldOf(j) : j \in flds}]

Fix(L)  == [b \in 1..Len(L.pat) |-> IF L.pat[b] = 1 THEN 1 ELSE 0]
Mask(L) == [b \in 1..Len(L.pat) |-> IF L.pat[b] = 2 THEN 0 ELSE 1]

(* the instruction word seen by a spec of `size` bits, then the tail bytes   *)
WordBit(bytes, endian, size, b) ==      \* b is 0-based
  IF b < size
  THEN LET j == b \div 8 IN BitOf(bytes[(IF endian = 1 THEN j ELSE (size \div 8) - 1 - j) + 1], b % 8)
  ELSE BitOf(bytes[(b \div 8) + 1], b % 8)

Accepts(L, bytes, endian) ==
  /\ 8 * Len(bytes) >= L.size
  /\ \A b \in 1..L.size : L.pat[b] # 2 => WordBit(bytes, endian, L.size, b - 1) = L.pat[b]

FieldBits(L, f, bytes, endian) ==       \* LSB first
  LET hi == IF f.hi # -1 THEN f.hi ELSE IF L.var THEN 8 * Len(bytes) ELSE L.size
  IN [k \in 1..(hi - f.lo) |-> WordBit(bytes, endian, L.size, f.lo + k - 1)]

(* the value in the documented form, as plain data:                          *)
(*   int  -> [r:"int",  n:0,     b: bits LSB first without leading zeros]    *)
(*   bits -> [r:"bits", n:width, b: idem]                                    *)
(*   str  -> [r:"str",  n:width, b: code points '0'/'1' in reading order]    *)
FieldValue(L, f, bytes, endian) ==
  LET v == FieldBits(L, f, bytes, endian) IN
  CASE f.repr = "int"  -> [r |-> "int", n |-> 0, b |-> TrimHi(v)]
    [] f.repr = "bits" -> [r |-> "bits", n |-> Len(v), b |-> TrimHi(v)]
    [] OTHER           -> [r |-> "str", n |-> Len(v),
                           b |-> LET cs == [k \in 1..Len(v) |-> 48 + v[k]] IN IF f.rev THEN Rev(cs) ELSE cs]

Delivered(L, bytes, endian) ==
  {[name |-> f.name, dest |-> f.dest, val |-> FieldValue(L, f, bytes, endian)] : f \in L.fields}

-----------------------------------------------------------------------------
(* ispec.buildspec, transcribed.  State of the loop: i, count, chklen, the  *)
(* fix/mask bit arrays, the extractors and the error reports.               *)
ImplSize(ast) ==
  LET fmt == IF ast.dir = "<" THEN Rev(ast.dirs) ELSE ast.dirs
      RECURSIVE Go(_, _)
      Go(k, sz) == IF k > Len(fmt) THEN sz
                   ELSE LET d == fmt[k] IN
                        IF d.k \in {"bit", "dc"} THEN Go(k + 1, sz + 1)
                        ELSE IF d.k = "byte" THEN Go(k + 1, sz + 8)
                        ELSE IF d.n = -1 THEN sz                         \* break
                        ELSE IF d.opt # "=" THEN Go(k + 1, sz + d.n) ELSE Go(k + 1, sz)
  IN IF ast.len = -1 THEN Go(1, 0) ELSE ast.len

SetBits(arr, i, vals, size) ==      \* arr[i : i+len(vals)] = vals, python slice semantics (clamped)
  [b \in 1..size |-> IF b - 1 >= i /\ b - 1 < i + Len(vals) THEN vals[b - i] ELSE arr[b]]

Impl(ast, Dev) ==
  LET fmt  == IF ast.dir = "<" THEN Rev(ast.dirs) ELSE ast.dirs
      go   == IF ast.dir = "<" THEN -1 ELSE 1
      size == ImplSize(ast)
      init == [i |-> 0, count |-> 0, chklen |-> ast.len # -1,
               fix |-> Rep(0, size), mask |-> Rep(0, size), ex |-> {}, errs |-> {}]
      RECURSIVE Loop(_, _)
      Loop(k, s) ==
        IF k > Len(fmt) THEN s
        ELSE
        LET d  == fmt[k]
            e0 == IF s.chklen /\ ~(s.i < size) THEN s.errs \cup {"toowide"} ELSE s.errs
        IN
        IF d.k = "dc" THEN Loop(k + 1, [s EXCEPT !.i = @ + 1, !.count = @ + 1, !.errs = e0])
        ELSE IF d.k = "bit" THEN
             \* self.fix[i] = int(d) raises IndexError when i is outside
             IF s.i >= size THEN [s EXCEPT !.errs = e0 \cup {"crash"}]
             ELSE Loop(k + 1, [s EXCEPT !.fix = SetBits(@, s.i, <<d.v>>, size),
                                        !.mask = SetBits(@, s.i, <<IF "MaskDropsZeroBit" \in Dev /\ d.v = 0 THEN 0 ELSE 1>>, size),
                                        !.i = @ + 1, !.count = @ + 1, !.errs = e0])
        ELSE IF d.k = "byte" THEN
             Loop(k + 1, [s EXCEPT !.fix = SetBits(@, s.i, ByteBits(d.v), size),
                                   !.mask = SetBits(@, s.i, Rep(1, 8), size),
                                   !.i = @ + 8, !.count = @ + 8,
                                   !.errs = IF s.i + 8 > size THEN e0 \cup {"crash"} ELSE e0])
        ELSE
        IF d.n # -1 THEN
           LET i1  == IF d.opt = "=" /\ go > 0 /\ "EqNoRewindUp" \notin Dev THEN s.i - d.n ELSE s.i
               sta == i1
               sto == i1 + d.n
               e1  == IF sta < 0 \/ sto > size THEN e0 \cup {"oob"} ELSE e0
               cnt == IF d.opt # "=" THEN s.count + d.n ELSE s.count
               i2  == IF d.opt = "=" /\ go < 0 /\ "EqNoRewindDown" \notin Dev THEN sto - d.n ELSE sto
               F   == FieldForm(d)
               clash == \E x \in s.ex : x.name = d.name /\ x.dest = F.dest
           IN IF clash THEN [s EXCEPT !.errs = e1 \cup {"redefined"}]
              ELSE Loop(k + 1, [s EXCEPT !.i = i2, !.count = cnt, !.errs = e1,
                                         !.ex = @ \cup {[name |-> d.name, dest |-> F.dest, repr |-> F.repr,
                                                         rev |-> (F.repr = "str" /\ go < 0), lo |-> sta, hi |-> sto]}])
        ELSE
           LET e1 == IF d.opt = "=" THEN e0 \cup {"eqstar"} ELSE e0
               F  == FieldForm(d)
               clash == \E x \in s.ex : x.name = d.name /\ x.dest = F.dest
           IN IF clash THEN [s EXCEPT !.errs = e1 \cup {"redefined"}]
              ELSE Loop(k + 1, [s EXCEPT !.i = size, !.count = IF @ < size THEN size ELSE @,
                                         !.chklen = TRUE, !.errs = e1,
                                         !.ex = @ \cup {[name |-> d.name, dest |-> F.dest, repr |-> F.repr,
                                                         rev |-> (F.repr = "str" /\ go < 0), lo |-> s.i,
                                                         hi |-> -1]}])
      fin == Loop(1, init)
      errs == fin.errs \cup (IF size % 8 # 0 THEN {"notmult8"} ELSE {})
                       \cup (IF fin.count # size /\ "crash" \notin fin.errs /\ "redefined" \notin fin.errs
                             THEN {"mismatch"} ELSE {})
                       \cup (IF size = 0 THEN {"empty"} ELSE {})
  IN [errs |-> errs, size |-> size, fix |-> fin.fix, mask |-> fin.mask, fields |-> fin.ex]
=============================================================================
