\* PrefixDetermined dropped: Agree must be violated
CONSTANTS
  N = 3
  Bytes = {0, 1}
  W = 2
  Ids = {"a", "b"}
  Hyp = {"Consumes", "Window"}
INIT Init
NEXT Next
INVARIANT Agree
CHECK_DEADLOCK FALSE
