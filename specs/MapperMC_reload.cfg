\* C09 M (thorough): repaired design on every program of the shape load; store; store of the loaded value; store; load
\* (three pointers at offset 0, sizes {1,2}, relative positions -2..2, aliasing allowed, little-endian)
CONSTANTS
  Ptrs = {"p", "q", "s"}
  Offs = {0}
  Sizes = {1, 2}
  Deltas <- DeltasTiny
  P0 = 4
  Top = 8
  NAs = {FALSE}
  MTs = {TRUE}
  Ens <- EnsLE
  MInits = {0}
  VKs = {"d", "r"}
  MaxSt = 3
  MaxLd = 2
  MaxLen = 5
  Template <- Reload
  Q = {}
  Clauses <- AllClauses
  Probe = FALSE
  PvInState = FALSE
  Gen = FALSE
INIT Init
NEXT Next
CHECK_DEADLOCK FALSE
INVARIANTS Correct
