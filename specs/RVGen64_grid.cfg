\* G: behaviour generator, RV64I, exhaustive BFS over a reduced class grid
CONSTANTS
  XLEN = 64
  NREG = 32
  MEMN = 32
  Dev = {}
  Triples = {}
  MCVals = {}
  ImmSel = "few"
  GPats <- GPatsGrid
  GVals <- GValsGrid
  GImms <- GImmsGrid
  GPcs = {"mid"}
  GOffs = {"odd"}
  GEnum = TRUE
INIT GInit
NEXT GNext
CONSTRAINT Emit
CHECK_DEADLOCK FALSE
