\* G: fault enumeration over the corpus bases (IOEnv.IDENT_BASES), parameters in IOEnv.IDENT_PARAMS.
\* BFS with maxfaults=1 enumerates every single fault; -simulate with maxfaults>1 draws fault sequences.
CONSTANTS
  Dev = {}
  Mode = "gen"
INIT Init
NEXT Next
CONSTRAINT Emit
CHECK_DEADLOCK FALSE
