\* G: fault enumeration over the corpus bases (IOEnv.IDENT_BASES), parameters in IOEnv.IDENT_PARAMS.
\* BFS: maxfaults=1 enumerates every single fault (plus the intact bases and the random-string classes);
\* maxfaults=2 enumerates every pair of faults of a strided sub-space. The sequences are drawn in Init.
CONSTANTS
  Dev = {}
  Mode = "gen"
INIT Init
NEXT Next
CONSTRAINT Emit
CHECK_DEADLOCK FALSE
