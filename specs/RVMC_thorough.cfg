\* M, thorough: reduced instance XLEN = 8, all 64 register triples, all boundary immediates
CONSTANTS
  XLEN = 8
  NREG = 4
  MEMN = 16
  Dev = {}
  Triples <- TriplesAll
  MCVals <- ValsFew
  ImmSel = "all"
  GPats = {}
  GVals = {}
  GImms = {}
  GPcs = {}
  GOffs = {}
  GEnum = TRUE
INIT Init
NEXT Next
CONSTRAINT OneStep
INVARIANTS IntSem X0Zero Typed RegFrame MemFrame RoundTrip
CHECK_DEADLOCK FALSE
