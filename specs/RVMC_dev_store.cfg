\* M, seeded fault StoreWide: TLC must reject it
CONSTANTS
  XLEN = 8
  NREG = 4
  MEMN = 16
  Dev = {"StoreWide"}
  Triples <- TriplesFew
  MCVals <- ValsFew
  ImmSel = "few"
  GPats = {}
  GVals = {}
  GImms = {}
  GPcs = {}
  GOffs = {}
  GEnum = TRUE
INIT Init
NEXT Next
CONSTRAINT OneStep
INVARIANTS IntSem X0Zero Typed RegFrame MemFrame RoundTrip
CHECK_DEADLOCK FALSE
