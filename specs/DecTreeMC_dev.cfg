\* self-test: a setup that forgets the big-endian left-justification must violate Inv
CONSTANTS
  U = 1
  Sizes = {1, 2}
  Endians <- EBig
  LeafMax = 2
  MaxSpecs = 3
  HookVals = {TRUE}
  MinW = 1
  CallExtra = 0
  AnyN = 0
  Dev = {"NoAdjustInSetup"}
  Gen = FALSE
INIT Init
NEXT Next
INVARIANT Inv
CHECK_DEADLOCK FALSE
