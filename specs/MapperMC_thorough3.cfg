\* C09 M (thorough): repaired design, loads inside the program, loaded values stored again, initial memory in the start state
CONSTANTS
  Ptrs = {"p", "q"}
  Offs = {0, 1}
  Sizes = {1, 2}
  Deltas <- DeltasSmall
  P0 = 4
  Top = 10
  NAs = {FALSE, TRUE}
  MTs = {TRUE}
  Ens <- EnsBoth
  MInits = {0, 1}
  VKs = {"d", "r"}
  MaxSt = 3
  MaxLd = 2
  MaxLen = 4
  Template <- NoTemplate
  Q = {}
  Clauses <- AllClauses
  Probe = FALSE
  PvInState = FALSE
  Gen = FALSE
INIT Init
NEXT Next
CHECK_DEADLOCK FALSE
INVARIANTS Correct
