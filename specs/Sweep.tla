-------------------------------- MODULE Sweep --------------------------------
(***************************************************************************)
(* C05, last sentence: "Hence linear sweep and recursive traversal agree on *)
(* every instruction they both reach."                                      *)
(*                                                                          *)
(* A code region mem[1..N] over a small byte alphabet and an UNINTERPRETED  *)
(* decoder: nothing is known about it except that the history `hist` of     *)
(* everything it has answered so far satisfies the hypotheses listed in Hyp *)
(* (subsets of PrefixDetermined, Consumes, Window from DecoderObs.tla - the *)
(* very operators that DecoderTrace.tla evaluates on amoco's answers) and   *)
(* that it is a function of its input (C11).  Each query is answered        *)
(* nondeterministically with ANY outcome that keeps the hypotheses true, so *)
(* TLC quantifies over every decoder of the small scope.                    *)
(*                                                                          *)
(* Two traversals query it:                                                 *)
(*   LinStep   linear sweep: at address a it hands the decoder the whole    *)
(*             rest of the region mem[a..N] and continues at a + length     *)
(*   RecStep   recursive traversal: reaches ANY address (control flow is    *)
(*             unconstrained) and hands the decoder a fetch window          *)
(*             mem[a..e]; normally e = a+W-1 (W = advertised maxlen), but   *)
(*             the window may be cut short by the end of the region or by a *)
(*             boundary in the memory map (MemoryMap.read returns chunks,   *)
(*             the fetcher decodes the first one)                           *)
(* Agree:      wherever both obtained an instruction it is the same one.    *)
(* SameReach:  an instruction of length <= W found by the sweep is found,   *)
(*             unchanged, by a traversal that fetches a full window.        *)
(* InRegion:   the sweep never leaves the region.                           *)
(* WindowThm:  Window is a consequence of PrefixDetermined and Consumes.    *)
(***************************************************************************)
EXTENDS DecoderObs, TLC

CONSTANTS N,      \* size of the region
          Bytes,  \* byte alphabet
          W,      \* advertised maximal instruction length = size of a fetch window
          Ids,    \* instruction identities (stand for mnemonic/operands/misc)
          Hyp     \* hypotheses the decoder is known to satisfy

VARIABLES mem, hist, lin, rec, lpc
vars == <<mem, hist, lin, rec, lpc>>

Min(a, b) == IF a < b THEN a ELSE b
Obs(b, o) == [m |-> 0, in |-> b, out |-> o]

(* outcomes the decoder could conceivably return on input b; if Consumes is *)
(* not a hypothesis it may also claim more bytes than it was given          *)
Outcomes(b) ==
  {None} \cup
  {[k |-> "instr", len |-> n, bytes |-> SubSeq(b, 1, Min(n, Len(b))), id |-> d] :
      n \in 1..(IF "Consumes" \in Hyp THEN Len(b) ELSE N + 1), d \in Ids}

Holds(H) == /\ "PrefixDetermined" \in Hyp => PrefixDetermined(H)
            /\ "Consumes" \in Hyp => Consumes(H)
            /\ "Window" \in Hyp => Window(H, W)
            /\ Functional(H)

Answers(b) == {o \in Outcomes(b) : Holds(hist \cup {Obs(b, o)})}

Init == /\ mem \in [1..N -> Bytes]
        /\ hist = {}
        /\ lin = {} /\ rec = {}      \* what each traversal obtained: sets of [a, out(, full)]
        /\ lpc = 1

Fetch(a, e) == SubSeq(mem, a, e)

RecAt(a) == {p \in rec : p.a = a}

LinStep ==
  /\ lpc >= 1 /\ lpc <= N
  /\ \E o \in Answers(Fetch(lpc, N)) :
       /\ hist' = hist \cup {Obs(Fetch(lpc, N), o)}
       /\ lin' = lin \cup {[a |-> lpc, out |-> o]}
       /\ lpc' = IF IsInstr(o) THEN lpc + o.len ELSE 0
  /\ UNCHANGED <<mem, rec>>

RecStep ==
  /\ \E a \in 1..N : RecAt(a) = {} /\
       \E e \in a..Min(a + W - 1, N) : \E o \in Answers(Fetch(a, e)) :
          /\ hist' = hist \cup {Obs(Fetch(a, e), o)}
          /\ rec' = rec \cup {[a |-> a, out |-> o, full |-> (e = a + W - 1)]}
  /\ UNCHANGED <<mem, lin, lpc>>

Next == LinStep \/ RecStep
Spec == Init /\ [][Next]_vars

Agree == \A x \in lin, y \in rec :
           (x.a = y.a /\ IsInstr(x.out) /\ IsInstr(y.out)) => x.out = y.out

SameReach == \A x \in lin, y \in rec :
           (x.a = y.a /\ y.full /\ IsInstr(x.out) /\ x.out.len <= W) => y.out = x.out

InRegion == lpc <= N + 1

WindowThm == Window(hist, W)
=============================================================================
