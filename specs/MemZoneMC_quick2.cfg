\* exhaustive design check (quick): two maps + merge, two zones, shift, <= 3 actions
CONSTANTS
  MaxAddr = 3
  Sizes = {1, 2}
  MaxOps = 3
  Zones = {"none", "r"}
  Maps = 2
  Shifts = {1}
  GenHist = FALSE
  Dev = {}
INIT Init
NEXT Next
INVARIANT Sorted
INVARIANT NonEmpty
INVARIANT Refines
CHECK_DEADLOCK FALSE
