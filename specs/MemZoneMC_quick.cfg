\* exhaustive design check (quick): one map, addresses 0..5, sizes 1..3, <= 3 actions
CONSTANTS
  MaxAddr = 5
  Sizes = {1, 2, 3}
  MaxOps = 3
  Zones = {"none"}
  Maps = 1
  Shifts = {}
  GenHist = FALSE
  Dev = {}
INIT Init
NEXT Next
INVARIANT Sorted
INVARIANT NonEmpty
INVARIANT Refines
CHECK_DEADLOCK FALSE
