CONSTANTS
  B = 256
  MemSize = 14
  PtrVals = {0,1,2,3,4,5}
  DataInit <- DataReal
  MaxOps = 6
  Dev = "none"
  Gen = TRUE
  NoAls = {TRUE,FALSE}
  Endians = {"le","be"}
  Menu = {"regs","cst","inc","ld1","ld2","addld","ext","bump","slice","store","ldst","delayed"}
INIT Init
NEXT Next
INVARIANT Lockstep
CONSTRAINT Emit
CHECK_DEADLOCK FALSE
