\* C15 G (raw / HEX / SREC through the raw loader): random streams (-simulate), no corruptions
CONSTANTS
  Dev = ""
  Fmts = {"hex", "srec"}
  Seeds <- SeedRange
  MaxRecs = 6
  AllowMixed = TRUE
  NCorrupt = 0
  Subst0 = {48}
  WithRelocs = TRUE
  Lens = {0, 1, 2, 4, 7, 16, 32}
INIT Init
NEXT Next
CONSTRAINT Emit
CHECK_DEADLOCK FALSE
