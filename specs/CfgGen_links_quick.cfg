\* behaviour generator (quick): streams of 3 unit instructions, n/c/d, 3 insertions, 1 link
CONSTANTS
  MinN = 3
  MaxN = 3
  Lens = {1}
  Flags = {"n", "c", "d"}
  MaxIns = 3
  MaxLinks = 1
  MaxRe = 0
  Wide = FALSE
  GenHist = TRUE
  Dev = {}
INIT Init
NEXT Next
CONSTRAINT Emit
CHECK_DEADLOCK FALSE
