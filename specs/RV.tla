--------------------------------- MODULE RV ---------------------------------
(***************************************************************************)
(* C06, RISC-V part: the base ISA as a state machine.                       *)
(*                                                                          *)
(*   x    register file x0 .. x(NREG-1)   (x[i+1] is register xi)           *)
(*   pc   program counter                                                   *)
(*   mb   address of the first byte of the modelled memory window           *)
(*   mem  the MEMN bytes of the window (naturals 0..255)                    *)
(* Register / pc / address values are kept in the wire format (little-      *)
(* endian 16-bit limbs, RVIsa!ToLimbs); all arithmetic is done by RVIsa     *)
(* on bit-vectors (specs/lib/BitVec.tla).  One action per instruction:      *)
(* LUI, AUIPC, ..., each executes Step(word) for words of that instruction. *)
(*                                                                          *)
(* Two uses, selected by the configuration:                                 *)
(*                                                                          *)
(* M  RVMC*.cfg  (INIT Init, NEXT Next): reduced instances XLEN = 8 / 16,   *)
(*    NREG = 4, MEMN = 16.  TLC checks, on every transition, the bit-level  *)
(*    definitions of RVIsa against a second definition of every instruction *)
(*    written with ordinary integer arithmetic (IntSem: possible because    *)
(*    the values fit TLC's integers), x0 = 0, the register / memory frame   *)
(*    (exactly `size' bytes written, little-endian; nothing else changes;   *)
(*    JALR uses the OLD rs1 when rd = rs1 and clears bit 0), and            *)
(*    Decode(Encode(f)) = f.  Dev # {} seeds a fault that TLC must reject.  *)
(*                                                                          *)
(* G  RVGen*.cfg (INIT GInit, NEXT GNext): XLEN = 32 / 64, NREG = 32.  A    *)
(*    behaviour picks an instruction, a register-index pattern (rd = rs1,   *)
(*    rd = x0, rs1 = rs2, ...), operand / immediate / pc / address classes  *)
(*    (boundary values and random ones, drawn by TLC), builds the word with *)
(*    Encode, executes it with the SAME Step and prints pre-state, word and *)
(*    expected post-state (all registers, pc, the whole window) as JSON.    *)
(*    harness/c06rv.py replays it on amoco and compares.                    *)
(***************************************************************************)
EXTENDS RVIsa, TLC, Json

CONSTANTS NREG,        \* number of registers (32; 4 in the reduced instances)
          MEMN,        \* bytes in the memory window
          Dev,         \* set of deviation names (RVIsa!Exec); {} = the manual
          Triples,     \* M: register index triples <<rd, rs1, rs2>> explored
          MCVals,      \* M: initial values of x1, x2 (naturals); x3 is a pointer into the window
          ImmSel,      \* M: which of the boundary immediates are used ("few" | "all")
          GPats, GVals, GImms, GPcs, GOffs,  \* G: class sets (see below)
          GEnum        \* G: TRUE: TLC enumerates the class grid (BFS); FALSE: classes drawn at random (-simulate)

VARIABLES x, pc, mb, mem, last, g
vars == <<x, pc, mb, mem, last, g>>

NL == NLimbs(XLEN)
ZeroL == [k \in 1..NL |-> 0]
Reg(xx, i) == IF i = 0 THEN Zero(XLEN) ELSE FromLimbs(xx[i + 1], XLEN)
NoLast == [d |-> Illegal, w |-> Zero(32), x |-> <<>>, pc |-> ZeroL, mem |-> <<>>, f |-> <<>>]

(* offset of an n-byte access at address ea inside the window, -1 when it is not wholly inside *)
WinOff(ea, n) ==
  LET off == Sub(ea, FromLimbs(mb, XLEN)) IN
  IF n <= MEMN /\ Ult(off, NBits(MEMN - n + 1, XLEN)) THEN BNat(Trunc(off, 8)) ELSE -1
(* the window does not wrap around the end of the address space *)
NoWrap == ~Ult(Add(FromLimbs(mb, XLEN), NBits(MEMN - 1, XLEN)), FromLimbs(mb, XLEN))

PutBytes(mm, o, bs) == [k \in 1..Len(mm) |-> IF k - 1 >= o /\ k - 1 < o + Len(bs) THEN bs[k - o] ELSE mm[k]]

(* one instruction.  f: the fields the word was built from (kept for the round-trip invariant) *)
Step(w, f) ==
  LET d   == Decode(w)
      a   == Reg(x, d.rs1)
      b   == Reg(x, d.rs2)
      pcv == FromLimbs(pc, XLEN)
      ls  == LoadSize(d.op)
      lo  == IF ls > 0 THEN WinOff(EA(d, a), ls) ELSE 0
      m   == IF ls > 0 /\ lo >= 0 THEN BytesToBV(SubSeq(mem, lo + 1, lo + ls)) ELSE <<>>
      e   == ExecD(d, a, b, pcv, m, Dev)
      so  == IF e.st = <<>> THEN 0 ELSE WinOff(e.st[1], Len(e.st[2]) \div 8)
  IN /\ d.op \in Ops \ Traps
     /\ d.rd < NREG /\ d.rs1 < NREG /\ d.rs2 < NREG
     /\ lo >= 0 /\ so >= 0                        \* accesses outside the window are not modelled here
     /\ x'   = IF e.rd = <<>> THEN x ELSE [x EXCEPT ![d.rd + 1] = ToLimbs(e.rd[1])]
     /\ pc'  = ToLimbs(e.pc)
     /\ mem' = IF e.st = <<>> THEN mem ELSE PutBytes(mem, so, BVToBytes(e.st[2]))
     /\ mb'  = mb
     /\ last' = [d |-> d, w |-> w, x |-> x, pc |-> pc, mem |-> mem, f |-> f]

-----------------------------------------------------------------------------
(* M: the reduced machine *)
I12(n) == Sext(FromInt(n, 12), 32)
I13(n) == Sext(FromInt(n, 13), 32)
I21(n) == Sext(FromInt(n, 21), 32)
U20(n) == Zero(12) \o FromNat(n, 20)
Few == ImmSel = "few"
Imms(op) ==
  CASE Fmt(op) \in {"I", "S"} -> {I12(n) : n \in IF Few THEN {0, 5, -1, -7} ELSE {0, 1, 5, 9, -1, -4, -7, 127, -128, 2047, -2048}}
    [] Fmt(op) = "B" -> {I13(n) : n \in IF Few THEN {0, 6, -2} ELSE {0, 2, 6, 8, -2, -4, -10, 126, -128, 4094, -4096}}
    [] Fmt(op) = "J" -> {I21(n) : n \in IF Few THEN {0, 6, -2} ELSE {0, 2, 6, -2, -4, 254, -256, 1048574, -1048576}}
    [] Fmt(op) = "U" -> {U20(n) : n \in IF Few THEN {0, 1048575} ELSE {0, 1, 524287, 524288, 1048575}}
    [] Fmt(op) = "H" -> {NBits(n, 32) : n \in IF Few THEN {0, 1, XLEN - 1} ELSE 0..(XLEN - 1)}
    [] Fmt(op) = "HW" -> {NBits(n, 32) : n \in IF Few THEN {0, 1, 31} ELSE 0..31}
    [] OTHER -> {Zero(32)}

Ins(op) ==
  /\ g.ph = -1 /\ op \in Ops \ Traps /\ UNCHANGED g
  /\ \E t \in Triples : \E i \in Imms(op) :
       LET rd == IF UsesRd(op) THEN t[1] ELSE 0
           r1 == IF UsesRs1(op) THEN t[2] ELSE 0
           r2 == IF UsesRs2(op) THEN t[3] ELSE 0
       IN Step(Encode(op, rd, r1, r2, i), <<op, rd, r1, r2, i>>)

LUI == Ins("LUI")       AUIPC == Ins("AUIPC")   JAL == Ins("JAL")       JALR == Ins("JALR")
BEQ == Ins("BEQ")       BNE == Ins("BNE")       BLT == Ins("BLT")       BGE == Ins("BGE")
BLTU == Ins("BLTU")     BGEU == Ins("BGEU")
LB == Ins("LB")         LH == Ins("LH")         LW == Ins("LW")         LBU == Ins("LBU")
LHU == Ins("LHU")       LWU == Ins("LWU")       LD == Ins("LD")
SB == Ins("SB")         SH == Ins("SH")         SW == Ins("SW")         SD == Ins("SD")
ADDI == Ins("ADDI")     SLTI == Ins("SLTI")     SLTIU == Ins("SLTIU")   XORI == Ins("XORI")
ORI == Ins("ORI")       ANDI == Ins("ANDI")     SLLI == Ins("SLLI")     SRLI == Ins("SRLI")
SRAI == Ins("SRAI")
ADD == Ins("ADD")       SUB == Ins("SUB")       SLL == Ins("SLL")       SLT == Ins("SLT")
SLTU == Ins("SLTU")     XOR == Ins("XOR")       SRL == Ins("SRL")       SRA == Ins("SRA")
OR == Ins("OR")         AND == Ins("AND")       FENCE == Ins("FENCE")
ADDIW == Ins("ADDIW")   SLLIW == Ins("SLLIW")   SRLIW == Ins("SRLIW")   SRAIW == Ins("SRAIW")
ADDW == Ins("ADDW")     SUBW == Ins("SUBW")     SLLW == Ins("SLLW")     SRLW == Ins("SRLW")
SRAW == Ins("SRAW")

Next ==
  \/ LUI \/ AUIPC \/ JAL \/ JALR \/ BEQ \/ BNE \/ BLT \/ BGE \/ BLTU \/ BGEU
  \/ LB \/ LH \/ LW \/ LBU \/ LHU \/ LWU \/ LD \/ SB \/ SH \/ SW \/ SD
  \/ ADDI \/ SLTI \/ SLTIU \/ XORI \/ ORI \/ ANDI \/ SLLI \/ SRLI \/ SRAI
  \/ ADD \/ SUB \/ SLL \/ SLT \/ SLTU \/ XOR \/ SRL \/ SRA \/ OR \/ AND \/ FENCE
  \/ ADDIW \/ SLLIW \/ SRLIW \/ SRAIW \/ ADDW \/ SUBW \/ SLLW \/ SRLW \/ SRAW

MemPattern(j) == [k \in 1..MEMN |-> (IF j = 0 THEN 37 * k + 11 ELSE 83 * k + 126) % 256]
Init ==
  /\ \E v1 \in MCVals, v2 \in MCVals : x = <<ZeroL, <<v1>>, <<v2>>, <<MEMN \div 2>>>>
  /\ \E j \in 0..1 : pc = (IF j = 0 THEN <<16>> ELSE <<Pow2(XLEN) - 4>>) /\ mem = MemPattern(j)
  /\ mb = ZeroL
  /\ last = NoLast
  /\ g = [ph |-> -1]
(* explore one instruction from every initial state (the invariants are per transition) *)
OneStep == TLCGet("level") <= 1
TwoSteps == TLCGet("level") <= 2

(* ---- invariants: a second, integer-level definition of every instruction ---- *)
M == Pow2(XLEN)
SVal(u) == IF u >= M \div 2 THEN u - M ELSE u
RECURSIVE IBit(_, _, _)
IBit(f, u, v) == IF u = 0 /\ v = 0 THEN 0
                 ELSE (IF f = "and" THEN (u % 2) * (v % 2)
                       ELSE IF f = "or" THEN (IF (u % 2) + (v % 2) > 0 THEN 1 ELSE 0)
                       ELSE ((u % 2) + (v % 2)) % 2) + 2 * IBit(f, u \div 2, v \div 2)
FloorShr(s, n) == IF s >= 0 THEN s \div Pow2(n) ELSE -(((-s) + Pow2(n) - 1) \div Pow2(n))
Truth(c) == IF c THEN 1 ELSE 0

L == last
Lop == L.d.op
Lua == IF L.d.rs1 = 0 THEN 0 ELSE L.x[L.d.rs1 + 1][1]
Lub == IF L.d.rs2 = 0 THEN 0 ELSE L.x[L.d.rs2 + 1][1]
Lui == BNat(L.d.imm)
Lsi == SVal(Lui)
Lp  == L.pc[1]
Lea == (Lua + Lsi) % M
LByte(k) == L.mem[Lea + k + 1]

IntRd ==
  CASE Lop = "LUI" -> Lui
    [] Lop = "AUIPC" -> (Lp + Lui) % M
    [] Lop \in {"JAL", "JALR"} -> (Lp + 4) % M
    [] Lop = "LB" -> (IF LByte(0) >= 128 THEN LByte(0) - 256 ELSE LByte(0)) % M
    [] Lop = "LBU" -> LByte(0)
    [] Lop = "LH" -> LET h == LByte(0) + 256 * LByte(1) IN (IF h >= 32768 THEN h - 65536 ELSE h) % M
    [] Lop = "LHU" -> LByte(0) + 256 * LByte(1)
    [] Lop = "ADDI" -> (Lua + Lui) % M
    [] Lop = "SLTI" -> Truth(SVal(Lua) < Lsi)
    [] Lop = "SLTIU" -> Truth(Lua < Lui)
    [] Lop = "XORI" -> IBit("xor", Lua, Lui)
    [] Lop = "ORI" -> IBit("or", Lua, Lui)
    [] Lop = "ANDI" -> IBit("and", Lua, Lui)
    [] Lop = "SLLI" -> (Lua * Pow2(Lui)) % M
    [] Lop = "SRLI" -> Lua \div Pow2(Lui)
    [] Lop = "SRAI" -> FloorShr(SVal(Lua), Lui) % M
    [] Lop = "ADD" -> (Lua + Lub) % M
    [] Lop = "SUB" -> (Lua - Lub) % M
    [] Lop = "SLL" -> (Lua * Pow2(Lub % XLEN)) % M
    [] Lop = "SLT" -> Truth(SVal(Lua) < SVal(Lub))
    [] Lop = "SLTU" -> Truth(Lua < Lub)
    [] Lop = "XOR" -> IBit("xor", Lua, Lub)
    [] Lop = "SRL" -> Lua \div Pow2(Lub % XLEN)
    [] Lop = "SRA" -> FloorShr(SVal(Lua), Lub % XLEN) % M
    [] Lop = "OR" -> IBit("or", Lua, Lub)
    [] Lop = "AND" -> IBit("and", Lua, Lub)
IntPc ==
  LET Tk(c) == IF c THEN (Lp + Lsi) % M ELSE (Lp + 4) % M IN
  CASE Lop = "JAL" -> (Lp + Lsi) % M
    [] Lop = "JALR" -> LET t == (Lua + Lsi) % M IN t - (t % 2)
    [] Lop = "BEQ" -> Tk(Lua = Lub)
    [] Lop = "BNE" -> Tk(Lua # Lub)
    [] Lop = "BLT" -> Tk(SVal(Lua) < SVal(Lub))
    [] Lop = "BGE" -> Tk(SVal(Lua) >= SVal(Lub))
    [] Lop = "BLTU" -> Tk(Lua < Lub)
    [] Lop = "BGEU" -> Tk(Lua >= Lub)
    [] OTHER -> (Lp + 4) % M

Stepped == last.d.op # "ILLEGAL"
IntSem == Stepped =>
  /\ pc[1] = IntPc
  /\ (UsesRd(Lop) /\ L.d.rd # 0) => x[L.d.rd + 1][1] = IntRd
X0Zero == x[1] = ZeroL
Typed == /\ \A i \in 1..NREG : Len(x[i]) = NL /\ \A k \in 1..NL : x[i][k] \in 0..(IF XLEN < 16 THEN M - 1 ELSE 65535)
         /\ Len(mem) = MEMN /\ \A k \in 1..MEMN : mem[k] \in 0..255
RegFrame == Stepped =>
  \A i \in 1..NREG : (UsesRd(Lop) /\ L.d.rd # 0 /\ i = L.d.rd + 1) \/ x[i] = L.x[i]
MemFrame == Stepped =>
  LET n == StoreSize(Lop) IN
  \A k \in 1..MEMN :
     IF n > 0 /\ k - 1 >= Lea /\ k - 1 < Lea + n
     THEN mem[k] = (Lub \div Pow2(8 * (k - 1 - Lea))) % 256             \* little-endian, low n bytes of rs2
     ELSE mem[k] = L.mem[k]                                              \* nothing else is touched
RoundTrip == Stepped =>
  L.d = [op |-> L.f[1], rd |-> L.f[2], rs1 |-> L.f[3], rs2 |-> L.f[4], imm |-> Sx(L.f[5])]
  /\ ValidImm(L.f[1], L.f[5])

(* explored register triples <<rd, rs1, rs2>>; x3 holds the pointer into the window *)
TriplesFew == {<<1, 2, 3>>, <<1, 1, 2>>, <<1, 2, 1>>, <<1, 2, 2>>, <<1, 1, 1>>, <<0, 1, 2>>, <<1, 0, 2>>, <<1, 2, 0>>,
               <<2, 3, 1>>, <<3, 3, 3>>, <<1, 3, 2>>, <<3, 3, 1>>, <<0, 3, 1>>, <<2, 3, 3>>, <<2, 0, 1>>}
TriplesQuick == {<<1, 2, 3>>, <<1, 1, 2>>, <<1, 2, 2>>, <<0, 1, 2>>, <<1, 0, 2>>, <<2, 3, 1>>, <<3, 3, 1>>, <<2, 3, 3>>, <<1, 2, 0>>}
TriplesAll == {<<a, b, c>> : a \in 0..(NREG - 1), b \in 0..(NREG - 1), c \in 0..(NREG - 1)}
ValsFew == {0, 1, Pow2(XLEN - 1) - 1, Pow2(XLEN - 1), Pow2(XLEN) - 1}
ValsQuick == {0, Pow2(XLEN - 1) - 1, Pow2(XLEN - 1), Pow2(XLEN) - 1}
ValsQuick3 == {1, Pow2(XLEN - 1), Pow2(XLEN) - 1}
ValsMore == ValsFew \cup {9} \cup {2, 3, 7, 8, 15, 16, Pow2(XLEN - 1) + 1, Pow2(XLEN) - 2, Pow2(XLEN) - 8, 100}

-----------------------------------------------------------------------------
(* G: behaviour generator.  g.ph: 0 op -> 1 pattern -> 2 values -> 3 imm/pc/offset -> 4 draw -> 5 build -> 6 exec *)
GenOps == Ops \ Traps
RandL(i) == [k \in 1..NL |-> RandomElement(0..(65535 + 0 * i))]
HalfL(lowones, hiones, edge) ==     \* boundary of the lower half: 0..0 1..1 / 0..0 10..0 / 1..1 01..1 ...
  LET h == NL \div 2 IN
  [k \in 1..NL |-> IF k <= h THEN (IF edge /\ k = h THEN (IF lowones THEN 32767 ELSE 32768)
                                   ELSE IF lowones THEN 65535 ELSE 0)
                   ELSE IF hiones THEN 65535 ELSE 0]
ValL(c, r) ==      \* value of class c; r: a record of pre-drawn random material
  CASE c = "zero" -> ZeroL
    [] c = "one"  -> [k \in 1..NL |-> IF k = 1 THEN 1 ELSE 0]
    [] c = "ones" -> [k \in 1..NL |-> 65535]
    [] c = "min"  -> [k \in 1..NL |-> IF k = NL THEN 32768 ELSE 0]
    [] c = "max"  -> [k \in 1..NL |-> IF k = NL THEN 32767 ELSE 65535]
    [] c = "small" -> [k \in 1..NL |-> IF k = 1 THEN r.n % 130 ELSE 0]
    [] c = "half" -> HalfL(r.n % 2 = 1, (r.n \div 2) % 2 = 1, (r.n \div 4) % 2 = 1)
    [] c = "rand" -> r.l
ImmN(op, c, n) ==      \* the immediate of class c as an integer in the format's range (n: random natural)
  LET f == Fmt(op)
      bits == CASE f \in {"I", "S"} -> 12 [] f = "B" -> 12 [] f = "J" -> 20 [] f = "U" -> 20 [] OTHER -> 0
      hi == Pow2(bits - 1)
      sh == ShBits(op)
  IN IF f \in {"H", "HW"}
     THEN (CASE c = "zero" -> 0 [] c = "one" -> 1 [] c = "minus1" -> Pow2(sh) - 1
             [] c = "maxpos" -> Pow2(sh - 1) - 1 [] c = "minneg" -> Pow2(sh - 1) [] c = "rand" -> n % Pow2(sh))
     ELSE IF bits = 0 THEN 0
     ELSE (CASE c = "zero" -> 0 [] c = "one" -> 1 [] c = "minus1" -> -1
             [] c = "maxpos" -> hi - 1 [] c = "minneg" -> -hi [] c = "rand" -> (n % (2 * hi)) - hi)
Imm32(op, c, n) ==
  LET f == Fmt(op) v == ImmN(op, c, n) IN
  CASE f \in {"I", "S"} -> Sext(FromInt(v, 12), 32)
    [] f = "B" -> Sext(<<0>> \o FromInt(v, 12), 32)          \* multiples of 2
    [] f = "J" -> Sext(<<0>> \o FromInt(v, 20), 32)
    [] f = "U" -> Zero(12) \o FromInt(v, 20)
    [] f \in {"H", "HW"} -> NBits(v, 32)
    [] OTHER -> Zero(32)
PcL(c, r) ==
  CASE c = "low"  -> [k \in 1..NL |-> IF k = 1 THEN 4096 ELSE 0]
    [] c = "top"  -> [k \in 1..NL |-> IF k = 1 THEN 65532 ELSE 65535]             \* pc + 4 wraps to 0
    [] c = "mid"  -> [k \in 1..NL |-> IF k = 1 THEN 65532 ELSE IF k = 2 THEN 32767 ELSE 0]  \* 0x7ffffffc
    [] c = "rand" -> [k \in 1..NL |-> IF k = 1 THEN r.l[1] - (r.l[1] % 4) ELSE r.l[k]]

GPatsAll == {<<1, 2, 3>>, <<5, 5, 6>>, <<5, 6, 5>>, <<5, 6, 6>>, <<7, 7, 7>>, <<0, 1, 2>>, <<1, 0, 2>>, <<1, 2, 0>>,
             <<0, 0, 0>>, <<31, 30, 29>>, <<31, 31, 0>>, <<2, 2, 1>>, <<0, 5, 5>>, <<>>}      \* <<>>: random indices
GPatsGrid == {<<1, 2, 3>>, <<5, 5, 6>>, <<5, 6, 6>>, <<7, 7, 7>>, <<0, 1, 2>>, <<1, 0, 2>>, <<31, 30, 0>>}
GValsAll == {"zero", "one", "ones", "min", "max", "small", "half", "rand"}
GValsGrid == {"zero", "ones", "min", "max", "half", "rand"}
GImmsAll == {"zero", "one", "minus1", "maxpos", "minneg", "rand"}
GImmsGrid == {"minus1", "maxpos", "minneg", "rand"}
GPcsAll == {"low", "top", "mid", "rand"}
GOffsAll == {"first", "odd", "last", "rand"}

GInit ==
  /\ x = <<>> /\ pc = ZeroL /\ mb = ZeroL /\ mem = <<>> /\ last = NoLast
  /\ g = [ph |-> 0]
GNext ==
  \/ /\ g.ph = 0 /\ \E op \in GenOps : g' = [ph |-> 1, op |-> op]
     /\ UNCHANGED <<x, pc, mb, mem, last>>
  \/ /\ g.ph = 1 /\ GEnum
     /\ \E p \in GPats : g' = [g EXCEPT !.ph = 2] @@ [pat |-> p]
     /\ UNCHANGED <<x, pc, mb, mem, last>>
  \/ /\ g.ph = 2 /\ \E va \in GVals, vb \in GVals : g' = [g EXCEPT !.ph = 3] @@ [va |-> va, vb |-> vb]
     /\ UNCHANGED <<x, pc, mb, mem, last>>
  \/ /\ g.ph = 3 /\ \E ic \in GImms, pcc \in GPcs, oc \in GOffs :
                       g' = [g EXCEPT !.ph = 4] @@ [ic |-> ic, pcc |-> pcc, oc |-> oc]
     /\ UNCHANGED <<x, pc, mb, mem, last>>
  \/ /\ g.ph = 1 /\ ~GEnum        \* simulation: the classes are drawn instead of enumerated
     /\ g' = [g EXCEPT !.ph = 4] @@ [pat |-> RandomElement(GPats), va |-> RandomElement(GVals), vb |-> RandomElement(GVals),
                                    ic |-> RandomElement(GImms), pcc |-> RandomElement(GPcs), oc |-> RandomElement(GOffs)]
     /\ UNCHANGED <<x, pc, mb, mem, last>>
  \/ /\ g.ph = 4            \* draw all random material once, into the state
     /\ g' = [g EXCEPT !.ph = 5] @@
             [rx |-> [i \in 1..NREG |-> RandL(i)], ra |-> [n |-> RandomElement(0..65535), l |-> RandL(1)],
              rb |-> [n |-> RandomElement(0..65535), l |-> RandL(2)], rp |-> [l |-> RandL(3)],
              rn |-> RandomElement(0..65535), ro |-> RandomElement(0..65535),
              rr |-> <<RandomElement(0..(NREG - 1)), RandomElement(0..(NREG - 1)), RandomElement(0..(NREG - 1))>>,
              rm |-> [k \in 1..MEMN |-> RandomElement(0..255)]]
     /\ UNCHANGED <<x, pc, mb, mem, last>>
  \/ /\ g.ph = 5            \* build the pre-state and the word
     /\ LET op == g.op
            t  == IF g.pat = <<>> THEN g.rr ELSE g.pat
            rd == IF UsesRd(op) THEN t[1] ELSE 0
            r1 == IF UsesRs1(op) THEN t[2] ELSE 0
            r2 == IF UsesRs2(op) THEN t[3] ELSE 0
            i  == Imm32(op, g.ic, g.rn)
            A  == ValL(g.va, g.ra)
            B  == ValL(g.vb, g.rb)
            X  == [k \in 1..NREG |-> IF k = 1 THEN ZeroL
                                     ELSE IF k = r1 + 1 THEN A
                                     ELSE IF k = r2 + 1 THEN B ELSE g.rx[k]]
            sz == LoadSize(op) + StoreSize(op)
            off == CASE g.oc = "first" -> 0 [] g.oc = "odd" -> 1 [] g.oc = "last" -> MEMN - sz
                     [] g.oc = "rand" -> g.ro % (MEMN - sz + 1)
            \* the window follows the pointer: its base is EA - off, so any rs1 value can be used
            ea == Add(Reg(X, r1), Sx(i))
            base == IF sz > 0 THEN ToLimbs(Sub(ea, NBits(off, XLEN))) ELSE [k \in 1..NL |-> IF k = 1 THEN 8192 ELSE 0]
        IN /\ x' = X /\ pc' = PcL(g.pcc, g.rp) /\ mb' = base /\ mem' = g.rm
           /\ g' = [g EXCEPT !.ph = 6] @@ [w |-> Encode(op, rd, r1, r2, i), f |-> <<op, rd, r1, r2, i>>]
           /\ UNCHANGED last
  \/ /\ g.ph = 6 /\ NoWrap
     /\ Step(g.w, g.f) /\ g' = [ph |-> 7, pat |-> g.pat, va |-> g.va, vb |-> g.vb, ic |-> g.ic, pcc |-> g.pcc, oc |-> g.oc]

Emit == (g.ph = 7) =>
  PrintT(ToJson([xlen |-> XLEN, op |-> last.d.op, rd |-> last.d.rd, rs1 |-> last.d.rs1, rs2 |-> last.d.rs2,
                 cls |-> <<IF g.pat = <<>> THEN "rand" ELSE "fixed", g.va, g.vb, g.ic, g.pcc, g.oc>>,
                 w |-> ToLimbs(last.w), x |-> last.x, pc |-> last.pc, mb |-> mb, mem |-> last.mem,
                 ex |-> [x |-> x, pc |-> pc, mem |-> mem],
                 rt |-> RoundTrip]))
=============================================================================
