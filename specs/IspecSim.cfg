\* G (simulation): formats up to 64 bits / *, every directive kind, option, style, suffix, ispec and ispec_ia32
CONSTANTS
  Lens = {8, 16, 24, 32, 48, 64, 0}
  Dirs = {"<", ">"}
  MaxDirs = 12
  FieldLens = {0, 1, 2, 3, 4, 5, 7, 8, 11, 12, 16, 20}
  Opts = {"", ".", "~", "#"}
  EqLens = {1, 2, 3}
  ByteVals = {0, 15, 47, 102, 160, 255}
  Stars = TRUE
  Classes = {"core", "x86", "x64"}
  Styles = {"spaced", "tight", "odd"}
  Sfx = {"none", "prefix", "xdata", "both"}
  Slack = 0
  VarMax = 32
  ModRMs = {8, 0, 1, 2, 3, 4, 5, 6, 7}
  Fill = TRUE
  DupNames = FALSE
  Gen = TRUE
  WordMode = "boundary"
  NRand = 4
  Dev = {}
INIT Init
NEXT Next
CONSTRAINT EmitC
CHECK_DEADLOCK FALSE
