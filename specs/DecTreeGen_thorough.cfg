\* G (exhaustive): every table of 5 specs over 1-bit units (sizes 1 and 2 units), both fetch orders
CONSTANTS
  U = 1
  Sizes = {1, 2}
  Endians <- EBoth
  LeafMax = 5
  MaxSpecs = 5
  HookVals = {TRUE}
  MinW = 1
  CallExtra = 0
  AnyN = 0
  Dev = {}
  Gen = TRUE
INIT Init
NEXT Next
CONSTRAINT EmitC
CHECK_DEADLOCK FALSE
