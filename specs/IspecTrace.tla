------------------------------ MODULE IspecTrace ------------------------------
(***************************************************************************)
(* C03, code -> spec.  Validates what real ispec objects expose against    *)
(* the documented meaning of their format string (IspecLang!Doc).          *)
(*                                                                         *)
(* TRACE_FILE is NDJSON, one trace per line:                               *)
(*   [t |-> id, fmt |-> <<code points of ispec.format>>, ev |-> <<...>>]   *)
(* Events (harness/c03.py):                                                *)
(*  [k:"layout", size, n, fix, mask, pfx, ex]                              *)
(*       size = ispec.size, n = ispec.fix.size, fix/mask = bits LSB first, *)
(*       pfx  = "none" | "prefix" | "xdata",                               *)
(*       ex   = the extractor closures found in fargs/iattr:               *)
(*              [name, dest, repr, rev, lo, hi]  (hi = -1: open)           *)
(*  [k:"decode", bytes, endian, out, got, ibytes]                          *)
(*       out  = "acc" | "rej" | "exc:<type>",                              *)
(*       got  = what the recording hook / the instruction received for     *)
(*              every extractor: [name, dest, val:[r, n, b]]               *)
(*       ibytes = instruction.bytes after decode                           *)
(*  [k:"expand"]  the trace's fmt is a format string as WRITTEN in an       *)
(*       x86/x64 spec file (argument of @ispec_ia32): the verdict carries  *)
(*       exp = Ia32Expand(fmt), which the driver looks up among the        *)
(*       formats of the registered ispec_ia32 objects                      *)
(* Verdicts are total: the first failing line and clause are recorded and  *)
(* the trace is consumed to its end.                                       *)
(***************************************************************************)
EXTENDS IspecLang, TLC, Json, IOUtils

Traces == ndJsonDeserialize(IOEnv.TRACE_FILE)

VARIABLES tid, l, lay, verdict, done
vars == <<tid, l, lay, verdict, done>>

Init == /\ tid \in 1..Len(Traces)
        /\ l = 1
        /\ lay = Doc(Parse(Traces[tid].fmt))
        /\ verdict = "ok"
        /\ done = FALSE

Ev == Traces[tid].ev[l]

ExSet(ex) == {[name |-> x.name, dest |-> x.dest, repr |-> x.repr, rev |-> x.rev, lo |-> x.lo, hi |-> x.hi]
              : x \in RangeOf(ex)}
GotSet(g) == {[name |-> x.name, dest |-> x.dest, val |-> [r |-> x.val.r, n |-> x.val.n, b |-> x.val.b]]
              : x \in RangeOf(g)}

LayoutClause(e) ==
  IF e.n # lay.size \/ e.size # (IF lay.var THEN 0 ELSE lay.size) THEN "Size"
  ELSE IF e.mask # Mask(lay) THEN "Mask"
  ELSE IF e.fix # Fix(lay) THEN "Fix"
  ELSE IF e.pfx # lay.pfx THEN "Suffix"
  ELSE IF ExSet(e.ex) # lay.fields THEN "Fields"
  ELSE "ok"

DecodeClause(e) ==
  LET acc == Accepts(lay, e.bytes, e.endian) IN
  IF e.out \notin {"acc", "rej"} THEN "Raised"
  ELSE IF (e.out = "acc") # acc THEN "Accept"
  ELSE IF ~acc THEN "ok"
  ELSE IF GotSet(e.got) # Delivered(lay, e.bytes, e.endian) THEN "Delivered"
  ELSE IF e.ibytes # SubSeq(e.bytes, 1, lay.size \div 8) THEN "Bytes"
  ELSE IF ~e.consts THEN "Constants"
  ELSE "ok"

Clause(e) == CASE e.k = "layout" -> LayoutClause(e)
               [] e.k = "expand" -> IF Ia32Valid(Traces[tid].fmt) THEN "ok" ELSE "MacroChar"
               [] e.k = "decode" -> DecodeClause(e)
               [] e.k = "raised" -> "Raised"
               [] OTHER -> "UnknownEvent"

Step ==
  /\ ~done /\ l <= Len(Traces[tid].ev)
  /\ l' = l + 1 /\ UNCHANGED <<tid, lay, done>>
  /\ LET c == Clause(Ev) IN
     verdict' = IF verdict = "ok" /\ c # "ok" THEN ToJson([line |-> l, clause |-> c]) ELSE verdict

Finish ==
  /\ ~done /\ l > Len(Traces[tid].ev)
  /\ done' = TRUE
  /\ PrintT(ToJson([t |-> Traces[tid].t, verdict |-> verdict, lines |-> l - 1, wf |-> lay.wf,
                     exp |-> IF Len(Traces[tid].ev) = 1 /\ Traces[tid].ev[1].k = "expand" /\ Ia32Valid(Traces[tid].fmt)
                             THEN Ia32Expand(Traces[tid].fmt) ELSE <<>>]))
  /\ UNCHANGED <<tid, l, lay, verdict>>

Next == Step \/ Finish
Spec == Init /\ [][Next]_vars
=============================================================================
