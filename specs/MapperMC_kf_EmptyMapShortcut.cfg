\* C09 finding: amoco's quirk EmptyMapShortcut ALONE (everything else repaired) must violate Correct:
\* m(x) returns x unevaluated although memory was written (noaliasing, no memtrace)
CONSTANTS
  Ptrs = {"p", "q"}
  Offs = {0, 1}
  Sizes = {1, 2}
  Deltas <- DeltasSmall
  P0 = 4
  Top = 10
  NAs = {TRUE}
  MTs = {FALSE}
  Ens <- EnsLE
  MInits = {0}
  VKs = {"d"}
  MaxSt = 3
  MaxLd = 0
  MaxLen = 3
  Template <- NoTemplate
  Q = {"EmptyMapShortcut"}
  Clauses <- AllClauses
  Probe = TRUE
  PvInState = FALSE
  Gen = FALSE
INIT Init
NEXT Next
CHECK_DEADLOCK FALSE
INVARIANTS Correct
