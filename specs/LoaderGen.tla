------------------------------ MODULE LoaderGen -------------------------------
(***************************************************************************)
(* C15: generator of loadable ELF images (x86 / x86-64, little-endian) with *)
(* 1..MaxSeg PT_LOAD segments whose placement exercises the page arithmetic *)
(* of the loaders: a first segment that starts at file offset 0 or not,     *)
(* later segments "apart" (own pages), "adjacent" (start where the previous *)
(* ends) or in the "samepage" (small gap, usually sharing the page), with   *)
(* virtual addresses unaligned to the page size but congruent to the file   *)
(* offsets modulo the page size (gABI), and a bss tail (p_memsz > p_filesz) *)
(* that ends inside the last file-backed page, or beyond it.  The file      *)
(* continues after the last segment with non-zero bytes (as section tables  *)
(* do in real files), so that a loader which maps whole pages sees them.    *)
(*  M  PagedRefines: the paging loader model of Loader.tla leaves exactly   *)
(*     Image(bytes) in every segment (and the seeded faults do not).        *)
(*  G  Emit: bytes, page size, Image, entry and the bytes at the entry.     *)
(***************************************************************************)
EXTENDS Loader, Json

CONSTANTS Classes, Seeds, PageSizes, MaxSeg, Relations, Tails

VARIABLES st, cls, ps, segs, rels, rnd, tail, base, fill
vars == <<st, cls, ps, segs, rels, rnd, tail, base, fill>>

Rb(x, k)    == RndByte(LcgAt(x, k))
Adv(x)      == LcgAt(x, 23)
SeedRange   == 0..127

Hdrs     == EhdrSize(cls) + MaxSeg * PhdrSize(cls)                    \* the file's header area
BaseOf(c, x) == LET lo == << 0, 0, (Rb(x, 20) % 64) + 16, <<8, 0, 64, 127>>[1 + (Rb(x, 21) % 4)] >>
                IN IF c = 64 THEN lo \o << <<0,0,0,0>>, <<85,85,0,0>>, <<0,16,0,0>> >>[1 + (Rb(x, 22) % 3)] ELSE lo
Len1     == 1 + (Rb(rnd, 1) % 120) + (IF Rb(rnd, 2) % 4 = 0 THEN ps ELSE 0)   \* a segment's file size
End(s)   == s.off + s.fs

Init == /\ st = "seg" /\ cls \in Classes /\ ps \in PageSizes /\ rnd \in Seeds
        /\ segs = <<>> /\ rels = <<>> /\ tail = 0 /\ base = BaseOf(cls, rnd) /\ fill = LcgAt(rnd, 5)

First ==
  /\ st = "seg" /\ segs = <<>>
  /\ \E zero \in BOOLEAN :
       LET off == IF zero THEN 0 ELSE Hdrs + (Rb(rnd, 3) % 40)
           fs  == IF zero THEN Hdrs + Len1 ELSE Len1
       IN segs' = << [off |-> off, fs |-> fs, ms |-> fs, region |-> 0] >>
  /\ rels' = <<"first">> /\ rnd' = Adv(rnd) /\ UNCHANGED <<st, cls, ps, tail, base, fill>>
More ==
  /\ st = "seg" /\ segs # <<>> /\ Len(segs) < MaxSeg
  /\ \E r \in Relations :
       LET p   == segs[Len(segs)]
           gap == CASE r = "adjacent" -> 0
                    [] r = "samepage" -> 1 + (Rb(rnd, 3) % Min2(ps - 1, 24))
                    [] OTHER          -> Rb(rnd, 3) % 48
           off == End(p) + gap
           reg == IF r = "apart" THEN p.region + 1 + (Rb(rnd, 4) % 3) ELSE p.region
           \* a segment followed by one in its own pages may have a bss tail of its own
           pms == IF r = "apart" /\ Rb(rnd, 5) % 3 = 0 THEN p.fs + 1 + (Rb(rnd, 6) % (2 * ps)) ELSE p.fs
       IN /\ segs' = Append([segs EXCEPT ![Len(segs)].ms = pms], [off |-> off, fs |-> Len1, ms |-> Len1, region |-> reg])
          /\ rels' = Append(rels, r)
  /\ rnd' = Adv(rnd) /\ UNCHANGED <<st, cls, ps, tail, base, fill>>
Finish ==
  /\ st = "seg" /\ segs # <<>>
  /\ \E t \in Tails :          \* "none" | "inpage": the bss ends inside the last file-backed page | "beyond": it needs more pages
       LET p    == segs[Len(segs)]
           room == (ps - ((p.off + p.fs) % ps)) % ps
           extra == CASE t = "none"   -> 0
                      [] t = "inpage" -> IF room = 0 THEN 0 ELSE 1 + (Rb(rnd, 3) % room)
                      [] OTHER        -> room + 1 + (Rb(rnd, 3) % (ps + 7))
       IN /\ segs' = [segs EXCEPT ![Len(segs)].ms = p.fs + extra]
          /\ rels' = Append(rels, t)
  /\ tail' = 3 + (Rb(rnd, 7) % 70)
  /\ rnd' = Adv(rnd) /\ st' = "done" /\ UNCHANGED <<cls, ps, base, fill>>
Next == First \/ More \/ Finish
Spec == Init /\ [][Next]_vars

\* va = base + region * 64 KiB + file offset: congruent to the file offset modulo every page size (base is 64 KiB aligned)
VaOf(s) == AddN(base, s.region * 65536 + s.off)
PhOf(s) == LET aw == AW(cls) IN
  [p_type |-> Digits(PT_LOAD, 4), p_flags |-> <<5, 0, 0, 0>>, p_offset |-> Digits(s.off, aw), p_vaddr |-> VaOf(s),
   p_paddr |-> VaOf(s), p_filesz |-> Digits(s.fs, aw), p_memsz |-> Digits(s.ms, aw), p_align |-> Digits(ps, aw)]
EntryOf == LET e == 1 + (Rb(rnd, 9) % Len(segs))  s == segs[e]
               lo == IF s.off = 0 THEN Hdrs ELSE 0
           IN AddN(VaOf(s), lo + ((256 * Rb(rnd, 10) + Rb(rnd, 11)) % (s.fs - lo)))
ImageA ==
  [cls |-> cls, ord |-> "LE", ver |-> 1, osabi |-> 0, abiver |-> 0, type |-> <<2, 0>>,
   machine |-> IF cls = 64 THEN <<62, 0>> ELSE <<3, 0>>, version |-> <<1, 0, 0, 0>>, entry |-> EntryOf, flags |-> <<0, 0, 0, 0>>,
   ph |-> Tup([k \in 1..Len(segs) |-> PhOf(segs[k])]), phpos |-> EhdrSize(cls), phent |-> PhdrSize(cls),
   sec |-> <<>>, shpos |-> 0, shent |-> ShdrSize(cls), shstrndx |-> 0, sym |-> <<>>,
   size |-> End(segs[Len(segs)]) + tail, fill |-> fill]

(* ---- M ---------------------------------------------------------------------*)
Refines == st = "done" => PagedRefines(Encode(ImageA), ps)

(* ---- G ---------------------------------------------------------------------*)
Emit == st = "done" =>
  LET b == Encode(ImageA) IN
  PrintT(ToJson([cls |-> cls, ps |-> ps, bytes |-> b, image |-> Image(b), entry |-> Entry(b),
                 atentry |-> AtAddr(b, Entry(b), 16), nfile |-> FileBackedFrom(b, Entry(b)),
                 asis |-> AsIsImage(b, ps), asis_atentry |-> AsIsAt(b, ps, Entry(b), 16), rels |-> rels, refines |-> PagedRefines(b, ps)]))
=============================================================================
