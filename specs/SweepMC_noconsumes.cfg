\* Consumes dropped: the sweep leaves the region (InRegion violated)
CONSTANTS
  N = 3
  Bytes = {0, 1}
  W = 2
  Ids = {"a", "b"}
  Hyp = {"PrefixDetermined", "Window"}
INIT Init
NEXT Next
INVARIANT InRegion
CHECK_DEADLOCK FALSE
