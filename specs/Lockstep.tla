------------------------------- MODULE Lockstep -------------------------------
(***************************************************************************)
(* C02 - the symbolic map of a block agrees with step-by-step concrete      *)
(* execution.  Two machines run in lockstep over abstract micro-operations  *)
(* (what the i_XXX semantics functions do to a mapper):                     *)
(*                                                                          *)
(*   SetReg(r, e)        r <- e                                             *)
(*   SetSlice(r, pos, e) byte pos of r <- low byte of e                     *)
(*   Store(p, d, n, e)   n bytes at address p+d <- low n bytes of e         *)
(*   Delayed(r, e)       r <- e, but only after the NEXT micro-operation    *)
(*                       has read its operands (mapper.delayed)             *)
(*   Load(p, d, n)       a sub-expression of e                              *)
(*                                                                          *)
(*   conc   evaluates every micro-operation at once on the concrete state   *)
(*          that started as sigma0                                          *)
(*   sym    accumulates, per register, a TREE over the INPUT symbols, and   *)
(*          the ordered list of symbolic stores; a load carries the stores  *)
(*          that precede it (`mods`).  With the no-aliasing assumption a    *)
(*          load only looks at the stores made through the same pointer     *)
(*          symbol (memory zones).                                          *)
(*                                                                          *)
(* Apply(sym, sigma0) evaluates the trees in sigma0 and replays the stores. *)
(* Invariant Lockstep: Apply(sym, sigma0) is, per register and per memory   *)
(* byte, Unknown or equal to conc; with no-aliasing on this is claimed only *)
(* for Disjoint(sigma0): accesses through different pointer symbols do not  *)
(* overlap.                                                                 *)
(*                                                                          *)
(* Values are naturals below N = B*B (two "bytes" of base B); B = 4 in the  *)
(* exhaustive configurations, 256 in the generator configurations whose     *)
(* behaviours are replayed on a real amoco mapper (harness/c02gen.py).      *)
(* Dev names a deliberately faulty symbolic machine (must be rejected):     *)
(*   "StaleRead"   operands read as input symbols instead of their current  *)
(*                 trees (rcompose evaluating in the wrong map)             *)
(*   "LoadNoMods"  a load ignores the earlier stores                        *)
(*   "LostHigh"    SetSlice forgets the other byte of the register          *)
(*   "EndianDrop"  loads are assembled little-endian whatever the case      *)
(*   "DelayEarly"  a delayed write lands immediately                        *)
(*   "NoDisjoint"  the no-aliasing claim is made for every sigma0           *)
(***************************************************************************)
EXTENDS Integers, Sequences, FiniteSets, TLC, Json

CONSTANTS B, MemSize, PtrVals, DataInit, MaxOps, Dev, Gen, NoAls, Endians, Menu

N == B * B
DR == {"a", "b"}
PR == {"p", "q"}
R == DR \cup PR
U == -1                          \* Unknown

VARIABLES s0, cfg, conc, sym, n, h
vars == <<s0, cfg, conc, sym, n, h>>

MemInit(i) == (7 * i + 3) % B
Addrs == 0..(MemSize - 1)

-----------------------------------------------------------------------------
(* byte-level memory operations on [Addrs -> byte or U]; en in {"le","be"} *)
LoadM(m, a, k, en) ==
  IF a < 0 \/ a + k > MemSize THEN U
  ELSE IF k = 1 THEN m[a]
  ELSE LET lo == IF en = "le" THEN m[a] ELSE m[a + 1]
           hi == IF en = "le" THEN m[a + 1] ELSE m[a]
       IN IF lo = U \/ hi = U THEN U ELSE lo + B * hi
StoreM(m, a, k, en, v) ==
  IF k = 1 THEN [m EXCEPT ![a] = IF v = U THEN U ELSE v % B]
  ELSE LET lo == IF v = U THEN U ELSE v % B
           hi == IF v = U THEN U ELSE (v \div B) % B
       IN IF en = "le" THEN [m EXCEPT ![a] = lo, ![a + 1] = hi]
          ELSE [m EXCEPT ![a] = hi, ![a + 1] = lo]

-----------------------------------------------------------------------------
(* value expressions of the micro-operations (over the CURRENT registers):
   [k:"reg",r] [k:"cst",c] [k:"inc",r] [k:"ld",p,d,n] [k:"addld",r,p,d] [k:"ext"] *)
CE(e, c) ==       \* concrete evaluation in the concrete state c
  CASE e.k = "reg" -> c.regs[e.r]
    [] e.k = "cst" -> e.c
    [] e.k = "inc" -> (c.regs[e.r] + 1) % N
    [] e.k = "ld"  -> LoadM(c.mem, c.regs[e.p] + e.d, e.n, cfg.en)
    [] e.k = "addld" -> (c.regs[e.r] + LoadM(c.mem, c.regs[e.p] + e.d, 1, cfg.en)) % N
    [] e.k = "ext" -> s0.ext
(* the addresses an expression reads (for enabling: inside the memory) *)
InRange(e, c) ==
  CASE e.k = "ld" -> c.regs[e.p] + e.d + e.n <= MemSize
    [] e.k = "addld" -> c.regs[e.p] + e.d + 1 <= MemSize
    [] OTHER -> TRUE

-----------------------------------------------------------------------------
(* trees over the input symbols:
   [k:"in",r] [k:"k",c] [k:"add",t,c] [k:"sum",l,r] [k:"byte",t,pos] [k:"comp",lo,hi] [k:"ext"]
   [k:"ld",a,n,en,mods]      mods: sequence of stores [a, n, en, v]                              *)
MkAdd(t, c) == IF t.k = "add" THEN [k |-> "add", t |-> t.t, c |-> t.c + c]
               ELSE IF t.k = "k" THEN [k |-> "k", c |-> (t.c + c) % N]
               ELSE [k |-> "add", t |-> t, c |-> c]
BaseOf(t) == IF t.k = "in" THEN t.r ELSE IF t.k = "add" /\ t.t.k = "in" THEN t.t.r ELSE "?"

RECURSIVE ET(_, _), Replay(_, _, _)
ET(t, s) ==       \* evaluation of a tree in the input state s
  CASE t.k = "in" -> s.regs[t.r]
    [] t.k = "k"  -> t.c
    [] t.k = "add" -> LET v == ET(t.t, s) IN IF v = U THEN U ELSE (v + t.c) % N
    [] t.k = "sum" -> LET l == ET(t.l, s) r == ET(t.r, s) IN IF l = U \/ r = U THEN U ELSE (l + r) % N
    [] t.k = "byte" -> LET v == ET(t.t, s) IN IF v = U THEN U ELSE IF t.pos = 0 THEN v % B ELSE (v \div B) % B
    [] t.k = "comp" -> LET lo == ET(t.lo, s) hi == ET(t.hi, s) IN IF lo = U \/ hi = U THEN U ELSE lo + B * hi
    [] t.k = "ext" -> U
    [] t.k = "ld" -> LET a == ET(t.a, s) IN
                     IF a = U THEN U ELSE LoadM(Replay(t.mods, s, s.mem), a, t.n, t.en)
Replay(st, s, m) ==
  IF Len(st) = 0 THEN m
  ELSE LET x == st[1] a == ET(x.a, s) IN
       IF a = U \/ a + x.n > MemSize THEN [i \in Addrs |-> U]
       ELSE Replay(Tail(st), s, StoreM(m, a, x.n, x.en, ET(x.v, s)))

(* the stores a new load carries: all of them, or (no-aliasing) those through the same pointer symbol *)
ModsFor(a) ==
  IF Dev = "LoadNoMods" THEN <<>>
  ELSE IF cfg.noal THEN SelectSeq(sym.stores, LAMBDA x : BaseOf(x.a) = BaseOf(a))
  ELSE sym.stores
LdEn == IF Dev = "EndianDrop" THEN "le" ELSE cfg.en

Cur(r) == IF Dev = "StaleRead" THEN [k |-> "in", r |-> r] ELSE sym.regs[r]
TE(e) ==          \* the tree of a value expression in the current symbolic state
  CASE e.k = "reg" -> Cur(e.r)
    [] e.k = "cst" -> [k |-> "k", c |-> e.c]
    [] e.k = "inc" -> MkAdd(Cur(e.r), 1)
    [] e.k = "ld"  -> LET a == MkAdd(Cur(e.p), e.d) IN [k |-> "ld", a |-> a, n |-> e.n, en |-> LdEn, mods |-> ModsFor(a)]
    [] e.k = "addld" -> LET a == MkAdd(Cur(e.p), e.d) IN
                        [k |-> "sum", l |-> Cur(e.r),
                         r |-> [k |-> "ld", a |-> a, n |-> 1, en |-> LdEn, mods |-> ModsFor(a)]]
    [] e.k = "ext" -> [k |-> "ext"]
(* accesses (pointer symbol, address in sigma0, length) an expression adds *)
AccOf(e) ==
  CASE e.k = "ld" -> {[b |-> BaseOf(MkAdd(Cur(e.p), e.d)), a |-> ET(MkAdd(Cur(e.p), e.d), s0), n |-> e.n]}
    [] e.k = "addld" -> {[b |-> BaseOf(MkAdd(Cur(e.p), e.d)), a |-> ET(MkAdd(Cur(e.p), e.d), s0), n |-> 1]}
    [] OTHER -> {}

-----------------------------------------------------------------------------
None == [r |-> "-"]
FlushC(c) == IF c.pend.r = "-" THEN c ELSE [c EXCEPT !.regs[c.pend.r] = c.pend.v, !.pend = None]
FlushS(s) == IF s.pend.r = "-" THEN s ELSE [s EXCEPT !.regs[s.pend.r] = s.pend.t, !.pend = None]

DisjointAcc(acc) == \A x \in acc, y \in acc : x.b # y.b => (x.a + x.n <= y.a \/ y.a + y.n <= x.a)
Snapshot(op, c, acc) == [op |-> op, regs |-> c.regs, mem |-> [i \in 1..MemSize |-> c.mem[i - 1]],
                         pend |-> c.pend.r, inside |-> (~cfg.noal) \/ DisjointAcc(acc)]
Log(op, c, acc) == IF Gen THEN Append(h, Snapshot(op, c, acc)) ELSE h

(* every micro-operation reads its operands first, then pending delayed writes land, then it writes *)
DoSetReg(r, e) ==
  /\ InRange(e, conc)
  /\ LET v == CE(e, conc) t == TE(e) acc == AccOf(e)
         c1 == FlushC(conc) s1 == FlushS(sym)
         c2 == [c1 EXCEPT !.regs[r] = v]
     IN /\ conc' = c2
        /\ sym' = [s1 EXCEPT !.regs[r] = t, !.acc = @ \cup acc]
        /\ h' = Log([op |-> "SetReg", r |-> r, e |-> e], c2, s1.acc \cup acc)

DoSetSlice(r, pos, e) ==
  /\ InRange(e, conc)
  /\ LET v == CE(e, conc) t == TE(e) acc == AccOf(e)
         c1 == FlushC(conc) s1 == FlushS(sym)
         old == c1.regs[r]
         nv == IF pos = 0 THEN (v % B) + B * ((old \div B) % B) ELSE (old % B) + B * (v % B)
         ot == s1.regs[r]
         bt == [k |-> "byte", t |-> t, pos |-> 0]
         nt == IF pos = 0
               THEN [k |-> "comp", lo |-> bt,
                     hi |-> IF Dev = "LostHigh" THEN [k |-> "k", c |-> 0] ELSE [k |-> "byte", t |-> ot, pos |-> 1]]
               ELSE [k |-> "comp", lo |-> [k |-> "byte", t |-> ot, pos |-> 0], hi |-> bt]
         c2 == [c1 EXCEPT !.regs[r] = nv]
     IN /\ conc' = c2
        /\ sym' = [s1 EXCEPT !.regs[r] = nt, !.acc = @ \cup acc]
        /\ h' = Log([op |-> "SetSlice", r |-> r, pos |-> pos, e |-> e], c2, s1.acc \cup acc)

DoStore(p, d, k, e) ==
  /\ InRange(e, conc)
  /\ conc.regs[p] + d + k <= MemSize
  /\ LET v == CE(e, conc) t == TE(e) acc == AccOf(e)
         at == MkAdd(Cur(p), d)
         ca == conc.regs[p] + d
         c1 == FlushC(conc) s1 == FlushS(sym)
         c2 == [c1 EXCEPT !.mem = StoreM(@, ca, k, cfg.en, v)]
     IN /\ conc' = c2
        /\ sym' = [s1 EXCEPT !.stores = Append(@, [a |-> at, n |-> k, en |-> cfg.en, v |-> t]),
                             !.acc = @ \cup acc \cup {[b |-> BaseOf(at), a |-> ET(at, s0), n |-> k]}]
        /\ h' = Log([op |-> "Store", p |-> p, d |-> d, n |-> k, e |-> e], c2, s1.acc \cup acc \cup {[b |-> BaseOf(at), a |-> ET(at, s0), n |-> k]})

DoDelayed(r, e) ==
  /\ InRange(e, conc)
  /\ LET v == CE(e, conc) t == TE(e) acc == AccOf(e)
         c1 == FlushC(conc) s1 == FlushS(sym)
         c2 == [c1 EXCEPT !.pend = [r |-> r, v |-> v]]
     IN /\ conc' = c2
        /\ sym' = IF Dev = "DelayEarly" THEN [s1 EXCEPT !.regs[r] = t, !.acc = @ \cup acc]
                  ELSE [s1 EXCEPT !.pend = [r |-> r, t |-> t], !.acc = @ \cup acc]
        /\ h' = Log([op |-> "Delayed", r |-> r, e |-> e], c2, s1.acc \cup acc)

Do(m) ==
  CASE m.op = "SetReg" -> DoSetReg(m.r, m.e)
    [] m.op = "SetSlice" -> DoSetSlice(m.r, m.pos, m.e)
    [] m.op = "Store" -> DoStore(m.p, m.d, m.n, m.e)
    [] m.op = "Delayed" -> DoDelayed(m.r, m.e)

-----------------------------------------------------------------------------
(* the menu of micro-operations; Menu selects a subset by name to bound the configurations *)
E(k) == CASE k = "regs" -> {[k |-> "reg", r |-> r] : r \in DR}
          [] k = "cst"  -> {[k |-> "cst", c |-> (2 * B + 3) % N]}
          [] k = "inc"  -> {[k |-> "inc", r |-> "a"]}
          [] k = "ld1"  -> {[k |-> "ld", p |-> p, d |-> 0, n |-> 1] : p \in PR}
          [] k = "ld2"  -> {[k |-> "ld", p |-> p, d |-> d, n |-> 2] : p \in PR, d \in {0, 1}}
          [] k = "addld" -> {[k |-> "addld", r |-> "b", p |-> "q", d |-> 0]}
          [] k = "ext"  -> {[k |-> "ext"]}
          [] OTHER -> {}
Vals == UNION {E(k) : k \in Menu}
StoreVals == {[k |-> "reg", r |-> r] : r \in DR} \cup (IF "ldst" \in Menu THEN {[k |-> "ld", p |-> "q", d |-> 0, n |-> 1]} ELSE {})
Ops ==
  {[op |-> "SetReg", r |-> r, e |-> e] : r \in DR, e \in Vals}
  \cup (IF "bump" \in Menu THEN {[op |-> "SetReg", r |-> p, e |-> [k |-> "inc", r |-> p]] : p \in PR} ELSE {})
  \cup (IF "slice" \in Menu
        THEN {[op |-> "SetSlice", r |-> "a", pos |-> pos, e |-> e] :
                pos \in {0, 1}, e \in {[k |-> "reg", r |-> "b"], [k |-> "ld", p |-> "q", d |-> 0, n |-> 1]}}
        ELSE {})
  \cup (IF "store" \in Menu
        THEN {[op |-> "Store", p |-> p, d |-> d, n |-> k, e |-> e] : p \in PR, d \in {0, 1}, k \in {1, 2}, e \in StoreVals}
        ELSE {})
  \cup (IF "delayed" \in Menu
        THEN {[op |-> "Delayed", r |-> "b", e |-> e] : e \in {[k |-> "ld", p |-> "p", d |-> 0, n |-> 2], [k |-> "reg", r |-> "a"]}}
        ELSE {})

Init ==
  /\ \E di \in DataInit, pv \in PtrVals, qv \in PtrVals :
       s0 = [regs |-> [r \in R |-> CASE r = "a" -> di.a [] r = "b" -> di.b [] r = "p" -> pv [] r = "q" -> qv],
             mem |-> [i \in Addrs |-> MemInit(i)], ext |-> (B + 2) % N]
  /\ \E na \in NoAls, en \in Endians : cfg = [noal |-> na, en |-> en]
  /\ conc = [regs |-> s0.regs, mem |-> s0.mem, pend |-> None]
  /\ sym = [regs |-> [r \in R |-> [k |-> "in", r |-> r]], stores |-> <<>>, pend |-> None, acc |-> {}]
  /\ n = 0
  /\ h = <<>>

Next == /\ n < MaxOps
        /\ n' = n + 1
        /\ UNCHANGED <<s0, cfg>>
        /\ \E m \in Ops : Do(m)

Spec == Init /\ [][Next]_vars

-----------------------------------------------------------------------------
Disjoint == DisjointAcc(sym.acc)
Inside == (~cfg.noal) \/ Dev = "NoDisjoint" \/ Disjoint

ApplyMem == Replay(sym.stores, s0, s0.mem)
Lockstep ==
  Inside =>
    /\ \A r \in R : LET v == ET(sym.regs[r], s0) IN v = U \/ v = conc.regs[r]
    /\ LET m == ApplyMem IN \A a \in Addrs : m[a] = U \/ m[a] = conc.mem[a]
    /\ (sym.pend.r = "-") = (conc.pend.r = "-")
    /\ sym.pend.r # "-" => (sym.pend.r = conc.pend.r /\ (ET(sym.pend.t, s0) = U \/ ET(sym.pend.t, s0) = conc.pend.v))

DataSmall == {[a |-> 6, b |-> 9]}
DataSmall2 == {[a |-> 6, b |-> 9], [a |-> 15, b |-> 0]}
DataReal == {[a |-> 4660, b |-> 43981], [a |-> 65535, b |-> 255]}     \* 0x1234 0xabcd / 0xffff 0x00ff
DataReal1 == {[a |-> 4660, b |-> 43981]}

(* the symbolic side is not trivially Unknown: a register written from constants/registers only is exact *)
TypeOK == n \in 0..MaxOps /\ \A r \in R : conc.regs[r] \in 0..(N - 1)

(* generator: one JSON behaviour per maximal history *)
Emit == (Gen /\ n = MaxOps) =>
          PrintT(ToJson([noal |-> cfg.noal, en |-> cfg.en, B |-> B,
                         regs0 |-> s0.regs, mem0 |-> [i \in 1..MemSize |-> s0.mem[i - 1]],
                         h |-> h]))
=============================================================================
