\* exhaustive: every sequence of 4 partial writes of a[0:n] into the 6-bit register r of a mapper, then M(r); quick: only the low 4 bits of r are written
CONSTANTS
  Widths = {3}
  MaxSteps = 5
  MaxW = 8
  FreshOnly = FALSE
  Ops = {"mset", "mget"}
  Shape <- ShapeAny
  LeafSet = {}
  AutoSimp = FALSE
  MapSpan = 4
  MapSrc = {1}
  Rand = FALSE
INIT Init
NEXT Next
CHECK_DEADLOCK FALSE
