------------------------------- MODULE MachOGen -------------------------------
(***************************************************************************)
(* C14 / C15 (Mach-O): generator of thin little-endian Mach-O images, 32-   *)
(* and 64-bit: optional __PAGEZERO, __TEXT (maps the header, 0..2 sections),*)
(* optional __DATA (file-backed part followed or not by a zero-filled tail, *)
(* 0..1 section), LC_MAIN or LC_UNIXTHREAD, optional LC_UUID-like and       *)
(* unknown commands, LC_SYMTAB with 0..2 symbols.  Design check: Report of  *)
(* the encoded image gives back the chosen header set (RoundTrip).          *)
(***************************************************************************)
EXTENDS MachO, Json

CONSTANTS Is64s, Seeds, NSects, DataKinds, EntryKinds, NSyms, Extras, PageZeros   \* NSyms: 9 stands for "no LC_SYMTAB"

VARIABLES st, A, rnd, is64
vars == <<st, A, rnd, is64>>

Rb(x, k)    == RndByte(LcgAt(x, k))
Rd(x, k, w) == Tup([i \in 1..w |-> Rb(x, k + i)])
SeedRange   == 0..127
Up(c, a)    == ((c + a - 1) \div a) * a
Name16(t)   == Widen(t, 16)
T_PAGEZERO == <<95,95,80,65,71,69,90,69,82,79>>   T_TEXT == <<95,95,84,69,88,84>>   T_DATA == <<95,95,68,65,84,65>>
T_text == <<95,95,116,101,120,116>>   T_stubs == <<95,95,115,116,117,98,115>>   T_data == <<95,95,100,97,116,97>>
SymPool == << <<95,109,97,105,110>>, <<95,102,111,111>>, <<95,95,109,104,95,101,120,101,99,117,116,101,95,104,101,97,100,101,114>> >>

Init == /\ st = "build" /\ rnd \in Seeds /\ is64 \in Is64s /\ A = <<>>

Sect(name, seg, addr, size, off) ==
  [sectname |-> Name16(name), segname |-> Name16(seg), addr |-> addr, size |-> Digits(size, AWm(is64)), offset |-> Digits(off, 4),
   align |-> <<Rb(rnd, 40) % 5, 0, 0, 0>>, reloff |-> <<0, 0, 0, 0>>, nreloc |-> <<0, 0, 0, 0>>,
   flags |-> <<0, 4, 0, 128>>, reserved1 |-> <<0, 0, 0, 0>>, reserved2 |-> <<Rb(rnd, 41) % 8, 0, 0, 0>>]
  @@ (IF is64 THEN ("reserved3" :> <<0, 0, 0, 0>>) ELSE <<>>)
Seg(name, vmaddr, vmsize, off, fsz, prot, nsects) ==
  [cmd |-> Digits(IF is64 THEN LC_SEGMENT_64 ELSE LC_SEGMENT, 4),
   cmdsize |-> Digits(SizeOf(SegL(is64)) + nsects * SizeOf(SectL(is64)), 4), segname |-> Name16(name),
   vmaddr |-> vmaddr, vmsize |-> vmsize, fileoff |-> Digits(off, AWm(is64)), filesize |-> Digits(fsz, AWm(is64)),
   maxprot |-> <<prot, 0, 0, 0>>, initprot |-> <<prot, 0, 0, 0>>, nsects |-> Digits(nsects, 4), flags |-> <<0, 0, 0, 0>>]

Build ==
  /\ st = "build"
  /\ \E pz \in PageZeros, nst \in NSects, dk \in DataKinds, ek \in EntryKinds, ns \in NSyms, ex \in Extras :
     LET aw     == AWm(is64)
         base   == IF is64 THEN <<0, 0, Rb(rnd, 1) % 64, 0, 1, 0, 0, 0>> ELSE <<0, 16 * (Rb(rnd, 1) % 8), Rb(rnd, 2) % 64, 0>>
         \* sizes of the load commands (independent of the values chosen below)
         segsz(n) == SizeOf(SegL(is64)) + n * SizeOf(SectL(is64))
         ndsect == IF dk = "none" THEN 0 ELSE Rb(rnd, 3) % 2
         thrsz  == 16 + (IF is64 THEN 21 * 8 ELSE 16 * 4)
         cmdsz  == (IF pz THEN segsz(0) ELSE 0) + segsz(nst) + (IF dk = "none" THEN 0 ELSE segsz(ndsect))
                   + (IF ek = "main" THEN 24 ELSE thrsz) + (IF ex THEN 24 + 16 ELSE 0) + (IF ns # 9 THEN 24 ELSE 0)
         H      == SizeOf(HdrL(is64)) + cmdsz
         code   == 8 + (Rb(rnd, 4) % 60)
         tfs    == H + (Rb(rnd, 5) % 9) + code * Max2(nst, 1)                  \* __TEXT file size
         tvs    == Up(tfs, 4096)
         dfs    == IF dk = "none" THEN 0 ELSE 4 + (Rb(rnd, 6) % 50)
         dvs    == CASE dk = "tail" -> dfs + 1 + (Rb(rnd, 7) % 300) [] dk = "eq" -> dfs [] OTHER -> 0
         doff   == Up(tfs, 16)
         dva    == AddN(base, tvs)
         symoff == Up(doff + dfs, 8)
         names  == Tup([k \in 1..(IF ns = 9 THEN 0 ELSE ns) |-> SymPool[1 + ((k + Rb(rnd, 8)) % 3)]])
         stroff == symoff + (IF ns = 9 THEN 0 ELSE ns) * SizeOf(NlistL(is64))
         size   == stroff + Len(StrTabOf(names)) + (Rb(rnd, 9) % 16)
         firstcode == H + (Rb(rnd, 5) % 9)
         tsects == Tup([j \in 1..nst |-> Sect(IF j = 1 THEN T_text ELSE T_stubs, T_TEXT, AddN(base, firstcode + (j - 1) * code), code, firstcode + (j - 1) * code)])
         dsects == Tup([j \in 1..ndsect |-> Sect(T_data, T_DATA, AddN(dva, 2), dfs - 2, doff + 2)])
         eoff   == firstcode + (Rb(rnd, 10) % (tfs - firstcode))
         entry  == AddN(Widen(base, 8), eoff)
         cmds   == (IF pz THEN << [kind |-> "seg", f |-> Seg(T_PAGEZERO, Zeros(aw), IF is64 THEN <<0,0,0,0,1,0,0,0>> ELSE <<0,16,0,0>>, 0, 0, 0, 0),
                                   sects |-> <<>>, data |-> <<>>] >> ELSE <<>>)
                   \o << [kind |-> "seg", f |-> Seg(T_TEXT, base, Digits(tvs, aw), 0, tfs, 5, nst), sects |-> tsects, data |-> <<>>] >>
                   \o (IF dk = "none" THEN <<>> ELSE
                       << [kind |-> "seg", f |-> Seg(T_DATA, dva, Digits(dvs, aw), doff, dfs, 3, ndsect), sects |-> dsects,
                           data |-> Rd(LcgAt(rnd, 11), 0, dfs)] >>)
                   \o (IF ex THEN << [kind |-> "other", cmd |-> <<27, 0, 0, 0>>, body |-> Rd(rnd, 12, 16)],
                                     [kind |-> "other", cmd |-> <<119, 0, 0, 0>>, body |-> Rd(rnd, 30, 8)] >> ELSE <<>>)
                   \o (IF ek = "main"
                       THEN << [kind |-> "main", f |-> [cmd |-> LC_MAIN, cmdsize |-> <<24, 0, 0, 0>>, entryoff |-> Digits(eoff, 8),
                                                        stacksize |-> <<0, 0, 0, 0, 0, 0, 0, 0>>]] >>
                       ELSE << [kind |-> "thread", flavor |-> IF is64 THEN 4 ELSE 1, pc |-> IF is64 THEN entry ELSE SubSeq(entry, 1, 4)] >>)
                   \o (IF ns # 9 THEN << [kind |-> "symtab", symoff |-> symoff, stroff |-> stroff,
                          syms |-> Tup([k \in 1..(IF ns = 9 THEN 0 ELSE ns) |-> [name |-> names[k], n_type |-> 15, n_sect |-> 1, n_desc |-> <<0, 0>>,
                                                         n_value |-> AddN(base, firstcode + k)]])] >> ELSE <<>>)
     IN A' = [is64 |-> is64, size |-> size, fill |-> LcgAt(rnd, 13), cmds |-> cmds, entry |-> entry, base |-> Widen(base, 8),
              hdr |-> [magic |-> IF is64 THEN MH_MAGIC_64 ELSE MH_MAGIC, cputype |-> IF is64 THEN <<7, 0, 0, 1>> ELSE <<7, 0, 0, 0>>,
                       cpusubtype |-> <<3, 0, 0, 0>>, filetype |-> <<2, 0, 0, 0>>, flags |-> <<133, 0, Rb(rnd, 14) % 64, 0>>]
                      @@ (IF is64 THEN ("reserved" :> <<0, 0, 0, 0>>) ELSE <<>>)]
  /\ st' = "done" /\ UNCHANGED <<rnd, is64>>
Next == Build
Spec == Init /\ [][Next]_vars

CmdOK(r, a) ==
  CASE a.kind = "seg"    -> r.kind \in {"seg32", "seg64"} /\ r.f = a.f /\ r.sects = a.sects
    [] a.kind = "main"   -> r.kind = "main" /\ r.f = a.f
    [] a.kind = "thread" -> r.kind = "thread" /\ r.f.pc = Widen(a.pc, 8) /\ ToNat(r.f.flavor) = a.flavor
    [] a.kind = "symtab" -> r.kind = "symtab" /\ ToNat(r.f.nsyms) = Len(a.syms) /\ ToNat(r.f.symoff) = a.symoff
    [] OTHER             -> r.kind = "other" /\ r.cmd = a.cmd /\ ToNat(r.cmdsize) = 8 + Len(a.body)
RoundTripOf(b) == LET R == Report(b) IN
  /\ R.is64 = A.is64 /\ \A n \in DOMAIN A.hdr : R.hdr[n] = A.hdr[n]
  /\ ToNat(R.hdr.ncmds) = Len(A.cmds) /\ Len(R.cmds) = Len(A.cmds)
  /\ \A k \in DOMAIN A.cmds : CmdOK(R.cmds[k], A.cmds[k])
  /\ R.entry = A.entry /\ R.base = A.base
  /\ LET S == {k \in DOMAIN A.cmds : A.cmds[k].kind = "symtab"} IN
     \A k \in S : /\ Len(R.syms) = Len(A.cmds[k].syms)
                  /\ \A j \in DOMAIN R.syms : R.syms[j].name = A.cmds[k].syms[j].name /\ R.syms[j].n_value = A.cmds[k].syms[j].n_value
RoundTrip == st = "done" => Disjoint(A) /\ RoundTripOf(Encode(A))

RECURSIVE SeqOfSet(_)
SeqOfSet(S) == IF S = {} THEN <<>> ELSE LET m == CHOOSE x \in S : TRUE IN <<m>> \o SeqOfSet(S \ {m})
QueryAddrs(R) == {R.entry} \cup
  UNION {LET s == R.cmds[k].f IN {Widen(s.vmaddr, 8), AddD(Widen(s.vmaddr, 8), SubD(s.filesize, <<1>>)), AddD(Widen(s.vmaddr, 8), s.filesize),
                                  AddD(Widen(s.vmaddr, 8), SubD(s.vmsize, <<1>>)), AddD(Widen(s.vmaddr, 8), s.vmsize)}
            : k \in {k \in DOMAIN R.cmds : IsSeg(R.cmds[k]) /\ Loadable(R.cmds[k])}}
  \cup UNION {UNION {LET c == R.cmds[k].sects[j] IN {Widen(c.addr, 8), AddD(Widen(c.addr, 8), SubD(c.size, <<1>>)), AddD(Widen(c.addr, 8), c.size)}
                       : j \in DOMAIN R.cmds[k].sects} : k \in {k \in DOMAIN R.cmds : IsSeg(R.cmds[k])}}
Emit == st = "done" =>
  LET b == Encode(A)  R == Report(b)  Q == SeqOfSet(QueryAddrs(R)) IN
  PrintT(ToJson([is64 |-> A.is64, bytes |-> b, expect |-> R, rt |-> Disjoint(A) /\ RoundTripOf(b),
                 queries |-> Tup([k \in 1..Len(Q) |-> Query(R, Q[k])]),
                 image |-> Image(b), atentry |-> AtAddr(b, R.entry, 16), nfile |-> FileBackedFrom(b, R.entry)]))
=============================================================================
