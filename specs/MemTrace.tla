------------------------------- MODULE MemTrace -------------------------------
(***************************************************************************)
(* C08, code -> spec direction. Validates traces recorded from real         *)
(* MemoryMap objects against the abstract last-write-wins byte store.       *)
(*                                                                          *)
(* TRACE_FILE is NDJSON, one trace per line: [t |-> id, ev |-> <<events>>]. *)
(* Events (logged by harness/c08trace.py at the return of the public call): *)
(*   [ev:"write", m, z, a, cells]   cells = per-byte descriptors (strings)  *)
(*                                   of the value written, in memory order  *)
(*   [ev:"read",  m, z, a, n, cells] cells = descriptors of what read()     *)
(*                                   returned ("U" = undefined)             *)
(*   [ev:"shift", m, z, d]  [ev:"restruct", m]  [ev:"copy", m]  [ev:"merge"]*)
(* The spec keeps store[m][z] : address -> descriptor and demands that      *)
(* every read returns exactly the store's content. Verdicts are total: a    *)
(* bad line is recorded (first failing line and clause) and the trace is    *)
(* consumed to its end.                                                     *)
(***************************************************************************)
EXTENDS Integers, Sequences, TLC, Json, IOUtils

Traces == ndJsonDeserialize(IOEnv.TRACE_FILE)

VARIABLES tid, l, store, verdict, done
vars == <<tid, l, store, verdict, done>>

MapIds == {1, 2}
ZoneNames == {"none", "r"}
Empty == [b \in {} |-> "U"]

WriteC(s, a, cells) == [b \in (DOMAIN s) \cup (a..(a + Len(cells) - 1)) |->
                          IF b >= a /\ b < a + Len(cells) THEN cells[b - a + 1] ELSE s[b]]
ReadC(s, a, n)  == [k \in 1..n |-> IF (a + k - 1) \in DOMAIN s THEN s[a + k - 1] ELSE "U"]
ShiftC(s, d)    == [b \in {c + d : c \in DOMAIN s} |-> s[b - d]]
OverC(s, t)     == [b \in (DOMAIN s) \cup (DOMAIN t) |-> IF b \in DOMAIN t THEN t[b] ELSE s[b]]

Ev == Traces[tid].ev[l]

Init == /\ tid \in 1..Len(Traces)
        /\ l = 1
        /\ store = [m \in MapIds |-> [z \in ZoneNames |-> Empty]]
        /\ verdict = "ok"
        /\ done = FALSE

Bad(clause) == verdict' = IF verdict = "ok" THEN ToJson([line |-> l, clause |-> clause]) ELSE verdict

Step ==
  /\ ~done /\ l <= Len(Traces[tid].ev)
  /\ l' = l + 1 /\ UNCHANGED <<tid, done>>
  /\ LET e == Ev IN
     CASE e.ev = "write" ->
            /\ store' = [store EXCEPT ![e.m][e.z] = WriteC(@, e.a, e.cells)]
            /\ UNCHANGED verdict
       [] e.ev = "read" ->
            /\ UNCHANGED store
            /\ IF e.cells = ReadC(store[e.m][e.z], e.a, e.n) THEN UNCHANGED verdict
               ELSE Bad("ReadIsLastWrite")
       [] e.ev = "shift" ->
            /\ store' = [store EXCEPT ![e.m][e.z] = ShiftC(@, e.d)]
            /\ UNCHANGED verdict
       [] e.ev \in {"restruct", "copy"} -> UNCHANGED <<store, verdict>>
       [] e.ev = "merge" ->
            /\ store' = [store EXCEPT ![1] = [z \in ZoneNames |-> OverC(store[1][z], store[2][z])],
                                      ![2] = [z \in ZoneNames |-> Empty]]
            /\ UNCHANGED verdict
       [] e.ev = "raised" -> UNCHANGED store /\ Bad("Raised")
       [] OTHER -> UNCHANGED store /\ Bad("UnknownEvent")

Finish ==
  /\ ~done /\ l > Len(Traces[tid].ev)
  /\ done' = TRUE
  /\ PrintT(ToJson([t |-> Traces[tid].t, verdict |-> verdict, lines |-> l - 1]))
  /\ UNCHANGED <<tid, l, store, verdict>>

Next == Step \/ Finish
Spec == Init /\ [][Next]_vars
=============================================================================
