\* C14/C15 G (HEX/SREC): every record stream of the small scope (BFS), 6 corruptions each
CONSTANTS
  Dev = ""
  Fmts = {"hex", "srec"}
  Seeds = {5}
  MaxRecs = 2
  AllowMixed = TRUE
  NCorrupt = 6
  Subst0 = {48}
  WithRelocs = FALSE
  Lens = {0, 2, 5}
INIT Init
NEXT Next
CONSTRAINT Emit
CHECK_DEADLOCK FALSE
