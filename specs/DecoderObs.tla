----------------------------- MODULE DecoderObs -----------------------------
(***************************************************************************)
(* C05 / C11 / C17 - the decoder seen as a black box over calls.            *)
(* Constant-level definitions shared by Decoder.tla (model of one call,    *)
(* call histories), Sweep.tla (linear sweep vs recursive traversal) and     *)
(* DecoderTrace.tla (validation of traces recorded from amoco).             *)
(*                                                                          *)
(* An OBSERVATION is a record [m, in, out]:                                 *)
(*   m   the decode mode (any value; observations of different modes are    *)
(*       never related)                                                     *)
(*   in  the byte string handed to the decoder (a sequence)                 *)
(*   out the outcome:  [k |-> "none"]                                       *)
(*                     [k |-> "instr", len, bytes, ...]  (further fields,   *)
(*                        e.g. a fingerprint of mnemonic/operands/misc,     *)
(*                        take part in equality of outcomes)                *)
(*                     [k |-> "raised", ...]                                *)
(* A history H is a set of observations.                                    *)
(***************************************************************************)
EXTENDS Integers, Sequences, FiniteSets

None      == [k |-> "none"]
IsInstr(o) == o.k = "instr"
IsNone(o)  == o.k = "none"
IsRaised(o) == o.k = "raised"

IsPrefix(p, b) == Len(p) <= Len(b) /\ SubSeq(b, 1, Len(p)) = p

(* ---- C05 --------------------------------------------------------------- *)
(* "its bytes equal the first 'length' bytes given, its length is at least  *)
(*  1 and never more than what was supplied"                                *)
ConsumesAt(x) ==
  IsInstr(x.out) => /\ x.out.len >= 1
                    /\ x.out.len <= Len(x.in)
                    /\ Len(x.out.bytes) = x.out.len
                    /\ x.out.bytes = SubSeq(x.in, 1, x.out.len)
Consumes(H) == \A x \in H : ConsumesAt(x)

(* "decoding exactly those bytes, or those bytes followed by anything else, *)
(*  yields the same instruction"                                            *)
PDPair(x, y) == (x.m = y.m /\ IsInstr(x.out) /\ IsPrefix(x.out.bytes, y.in)) => y.out = x.out
PrefixDetermined(H) == \A x, y \in H : PDPair(x, y)

(* One particular way in which PrefixDetermined fails, named because hooks   *)
(* that parse a variable-length operand (LEB128, immediate, displacement)   *)
(* share it: x.in decodes to an instruction although it is a proper         *)
(* truncation of the bytes of the instruction decoded from an extension of  *)
(* it (the hook did not notice that its operand was cut short).             *)
TruncatedAccepted(x, y) ==
  /\ x.m = y.m /\ IsInstr(x.out) /\ IsInstr(y.out)
  /\ IsPrefix(x.in, y.in) /\ y.out.len > Len(x.in)

(* "an instruction no longer than the ISA's advertised maximum length is    *)
(*  also obtained, unchanged, from a fetch window of that size"             *)
WindowPair(x, y, maxlen) ==
  (x.m = y.m /\ IsInstr(x.out) /\ x.out.len <= maxlen /\ Len(x.in) > maxlen
     /\ y.in = SubSeq(x.in, 1, maxlen)) => y.out = x.out
Window(H, maxlen) == \A x, y \in H : WindowPair(x, y, maxlen)

(* the decoder is a function of (mode, input) - the statement of C11 at the *)
(* level of observations                                                    *)
FunctionalPair(x, y) == (x.m = y.m /\ x.in = y.in) => x.out = y.out
Functional(H) == \A x, y \in H : FunctionalPair(x, y)

(* A named way in which two outcomes differ (C11): everything observable is *)
(* equal - kind, length, bytes, mnemonic, and the fingerprint `fps` that     *)
(* ignores the signedness flags `sf` of expression nodes - only the full     *)
(* fingerprint `fp` differs: a setup function wrote `sf` on a register       *)
(* object that all instructions share.                                       *)
DiffersOnlyInSf(o1, o2) ==
  /\ IsInstr(o1) /\ IsInstr(o2) /\ o1 # o2
  /\ "fps" \in DOMAIN o1 /\ "fps" \in DOMAIN o2
  /\ [o1 EXCEPT !.fp = ""] = [o2 EXCEPT !.fp = ""]

(* ---- C17: the total outcome type ------------------------------------- *)
(* arch/core.py: INSTRUCTION_TYPES has the keys -1 .. 5                     *)
InstrTypes == (0 - 1) .. 5

(* the projection of a returned instruction (harness/c17.py):               *)
(*   mnstr 1 iff the mnemonic is a str, mnlen its length, type the value of *)
(*   i.type (or 99 if it is not an int), len = i.length, opk the kinds of   *)
(*   the operands ("exp" for an amoco expression, else the Python type),    *)
(*   opsl 1 iff i.operands is a list/tuple                                  *)
HasMnemonic(e)  == e.mnstr = 1 /\ e.mnlen >= 1
HasType(e)      == e.type \in InstrTypes
HasLength(e)    == e.len >= 1
ExprOperands(e) == e.opsl = 1 /\ \A j \in 1..Len(e.opk) : e.opk[j] = "exp"
WellFormed(e)   == HasMnemonic(e) /\ HasType(e) /\ HasLength(e) /\ ExprOperands(e)

DecodeOutcomes == {"none", "instr"}          \* Decode(b) \in {None} \cup Instr
RenderOutcomes == {"str"}                    \* Render(i, syntax) \in String
ToksOutcomes   == {"list"}
PickleOutcomes == {"ok"}                     \* and the copy equals the original
ApplyOutcomes  == {"updated", "logged"}      \* Apply(i, map) \in {Updated, LoggedMissing}
=============================================================================
