\* C14 M (HEX/SREC): RoundTrip and Detect (every single-character substitution of every line) at larger scope (thorough tier)
CONSTANTS
  Dev = ""
  Fmts = {"hex", "srec"}
  Seeds = {5, 300, 4000}
  MaxRecs = 3
  AllowMixed = TRUE
  NCorrupt = 0
  Subst0 = {48, 49, 50, 51, 52, 53, 54, 55, 56, 57, 65, 66, 67, 68, 69, 70, 71, 90, 32, 58, 83}
  WithRelocs = FALSE
  Lens = {0, 1, 3}
INIT Init
NEXT Next
INVARIANT RoundTrip
INVARIANT Detect
CHECK_DEADLOCK FALSE
