\* C14 M (HEX/SREC): RoundTrip and Detect (every single-character substitution of every line) at larger scope (thorough tier)
CONSTANTS
  Dev = ""
  Fmts = {"hex", "srec"}
  Seeds = {5, 300, 4000}
  MaxRecs = 3
  AllowMixed = TRUE
  NCorrupt = 0
  Lens = {0, 1, 3}
INIT Init
NEXT Next
INVARIANT RoundTrip
INVARIANT Detect
CHECK_DEADLOCK FALSE
