\* self-test: the seeded fault NoSeek must be rejected (INVARIANT InvNoMisclaim)
CONSTANTS
  Dev = {"NoSeek"}
  Mode = "mc"
SPECIFICATION Spec
INVARIANT InvNoMisclaim
CHECK_DEADLOCK FALSE
