----------------------------- MODULE ExprOpTrace -----------------------------
(***************************************************************************)
(* C01 / C12 / C13 - code -> spec: validation of operator calls recorded    *)
(* through the guarded hooks (amoco/_verif_hooks.py) while the repository's *)
(* own test-suite and an ISA driver run. One event per line:                *)
(*   [t, ev |-> "oper", s, ops, ops2, res, raised, envs]                    *)
(*   [t, ev |-> "slicer", pos, n, ops, ops2, res, raised, envs]             *)
(*   [t, ev |-> "composer", ops, ops2, res, raised, envs]                   *)
(* ops / ops2: the operand trees before / after the call, res: the result   *)
(* tree (harness/ser.py, attribute reads only), envs: valuations of the     *)
(* registers occurring in the operands. Each event is judged on its own:    *)
(*   C12 Width/Tiles  the result has the width the call dictates and is     *)
(*                    well sized                                            *)
(*   C01 Meaning      Eval(res) = Eval(call applied to the operand trees)   *)
(*   C13 Frame        every operand still has its width and meaning         *)
(* Events whose operands are not well sized for the call are outside the    *)
(* claim ("skip"); Unknown on either side satisfies every equality.         *)
(***************************************************************************)
EXTENDS Expr, Json, IOUtils

CONSTANT Devs
Traces == ndJsonDeserialize(IOEnv.TRACE_FILE)

VARIABLES tid, done
vars == <<tid, done>>

E == Traces[tid]
RegFun(rs) == [n \in {rs[i].n : i \in 1..Len(rs)} |-> (CHOOSE i \in 1..Len(rs) : rs[i].n = n)]
EnvOf(i) == LET rs == E.envs[i].regs ix == RegFun(rs) IN
            [regs |-> [n \in DOMAIN ix |-> rs[ix[n]].v], mem |-> <<>>]
NEnv == Len(E.envs)

CmpOps == {"==", "!=", "<", "<=", ">", ">=", "<.", ">=."}
RECURSIVE PartsOf(_, _, _)
PartsOf(L, i, pos) == IF i > Len(L) THEN <<>>
                      ELSE <<[pos |-> pos, t |-> L[i]]>> \o PartsOf(L, i + 1, pos + L[i].w)
SumW(L) == LET P == PartsOf(L, 1, 0) IN IF Len(P) = 0 THEN 0 ELSE P[Len(P)].pos + P[Len(P)].t.w

Den ==
  CASE E.ev = "oper" /\ Len(E.ops) = 2 ->
         [k |-> "op", s |-> E.s, sf |-> 0, l |-> E.ops[1], r |-> E.ops[2],
          w |-> IF E.s \in CmpOps THEN 1 ELSE IF E.s = "**" THEN 2 * E.ops[1].w ELSE E.ops[1].w]
    [] E.ev = "oper" /\ Len(E.ops) = 1 ->
         [k |-> "uop", s |-> E.s, sf |-> 0, r |-> E.ops[1], w |-> E.ops[1].w]
    [] E.ev = "slicer" -> [k |-> "slc", sf |-> 0, x |-> E.ops[1], pos |-> E.pos, w |-> E.n]
    [] E.ev = "composer" -> [k |-> "comp", sf |-> 0, w |-> SumW(E.ops), parts |-> PartsOf(E.ops, 1, 0)]

\* external symbols are outside the claim: amoco assumes they are non-null addresses ((ext == 0) is
\* simplified to false), the property quantifies over registers and constants
Known(t) == t.k \in {"cst", "reg", "slc", "comp", "tst", "op", "uop", "ptr", "mem", "top", "bot", "vec"}
RECURSIVE AllKnown(_)
AllKnown(t) ==
  /\ Known(t)
  /\ CASE t.k = "slc" -> AllKnown(t.x)
       [] t.k = "comp" -> \A i \in 1..Len(t.parts) : AllKnown(t.parts[i].t)
       [] t.k = "tst" -> AllKnown(t.c) /\ AllKnown(t.l) /\ AllKnown(t.r)
       [] t.k = "op" -> AllKnown(t.l) /\ AllKnown(t.r)
       [] t.k = "uop" -> AllKnown(t.r)
       [] OTHER -> TRUE

InClaim == /\ \A i \in 1..Len(E.ops) : AllKnown(E.ops[i]) /\ WellSized(E.ops[i])
           /\ (E.ev = "oper" => E.s \in {"+", "-", "*", "**", "/", "%", "&", "|", "^", "~", "==", "!=", "<", "<=",
                                          ">", ">=", "<.", ">=.", "<<", ">>", ".>>", ">>>", "<<<"})
           /\ WellSized(Den)

RECURSIVE Disagree(_, _, _)
Disagree(obs, den, i) ==
  IF i > NEnv THEN 0
  ELSE LET a == Eval(obs, EnvOf(i), {}) IN
       IF IsU(a) THEN Disagree(obs, den, i + 1)
       ELSE LET b == Eval(den, EnvOf(i), {}) IN
            IF IsU(b) \/ a = b THEN Disagree(obs, den, i + 1) ELSE i

Verdict ==
  IF ~InClaim THEN [C01 |-> "skip", C12 |-> "skip", C13 |-> "skip", dev |-> ""]
  ELSE
    LET den == Den
        raised == E.raised # ""
        total == IF raised /\ ~(\A i \in 1..NEnv : Poisoned(den, EnvOf(i))) THEN "Total" ELSE "ok"
        c12 == IF raised THEN "ok"
               ELSE IF E.res.w # Width(den) THEN "Width"
               ELSE IF E.res.k \in {"top", "vec"} THEN "ok"
               ELSE IF AllKnown(E.res) /\ ~WellSized(E.res) THEN "Tiles" ELSE "ok"
        i1 == IF raised \/ c12 # "ok" \/ ~AllKnown(E.res) THEN 0 ELSE Disagree(E.res, den, 1)
        dev == IF i1 = 0 THEN "" ELSE Explains(den, EnvOf(i1), Eval(E.res, EnvOf(i1), {}), Devs)
        c01 == IF total # "ok" THEN total ELSE IF i1 = 0 \/ dev # "" THEN "ok" ELSE "Meaning"
        fr(k) == IF ~AllKnown(E.ops2[k]) THEN "ok"
                 ELSE IF E.ops2[k].w # E.ops[k].w THEN "FrameWidth"
                 ELSE IF Disagree(E.ops2[k], E.ops[k], 1) # 0 THEN "Frame" ELSE "ok"
        c13 == IF \E k \in 1..Len(E.ops) : fr(k) # "ok"
               THEN fr(CHOOSE k \in 1..Len(E.ops) : fr(k) # "ok") ELSE "ok"
    IN [C01 |-> c01, C12 |-> c12, C13 |-> c13, dev |-> dev]

Init == tid \in 1..Len(Traces) /\ done = FALSE
Next == /\ ~done /\ done' = TRUE /\ UNCHANGED tid
        /\ LET v == Verdict IN
           PrintT(ToJson([t |-> E.t, C01 |-> v.C01, C12 |-> v.C12, C13 |-> v.C13, dev |-> v.dev]))
Spec == Init /\ [][Next]_vars
=============================================================================
