------------------------------ MODULE ExprTrace ------------------------------
(***************************************************************************)
(* C01 / C12 / C13 - validation of recorded uses of the operator API.       *)
(*                                                                          *)
(* TRACE_FILE: NDJSON, one trace per line                                    *)
(*   [t, w, envs, ev]   w: leaf width, envs: <<[a |-> bits, b, c, d]>>,      *)
(*   ev: the calls of one ExprGen behaviour as performed on real objects:    *)
(*     call events  [act, ...args of the ExprGen record...,                  *)
(*                   lsf, rsf, lc, rc     flags / const-ness the operand     *)
(*                                        OBJECTS showed at application time,*)
(*                   raised               "" or the exception,               *)
(*                   live]                <<[h, tree]>> : serialised trees   *)
(*                                        (harness/ser.py) of the new handle *)
(*                                        and of every older handle whose    *)
(*                                        serialisation changed              *)
(*     [act |-> "evals", vals]   vals[envIndex] = <<[h, k, w, v]>> : what     *)
(*                               amoco's own evaluation of handle h returned *)
(* The spec rebuilds, for every handle, the UNSIMPLIFIED tree the calls      *)
(* denote, and checks with the reference semantics Expr!Eval:                *)
(*   C01  Meaning   the new handle's tree means what the calls denote        *)
(*        EvalConst amoco's evaluation, when a constant, is that value       *)
(*        Total     a well-sized call / evaluation does not raise            *)
(*   C12  Width / Tiles / EvalWidth                                          *)
(*   C13  Frame     every OLDER handle still has its width and meaning       *)
(*        Pickle    a restored object serialises identically                 *)
(* Unknown on either side satisfies every equality (never a wrong constant). *)
(* A mismatch that a single named deviation of Expr!Eval explains is         *)
(* recorded under `devs`, not as a failure: known_findings.json decides      *)
(* whether that deviation is a listed finding.                               *)
(***************************************************************************)
EXTENDS Expr, Json, IOUtils

CONSTANT Devs    \* names of the deviations Expr!Eval implements

Traces == ndJsonDeserialize(IOEnv.TRACE_FILE)

VARIABLES tid, l, pool, mreg, verdict, done
vars == <<tid, l, pool, mreg, verdict, done>>

T == Traces[tid]
NEnv == Len(T.envs)
EnvOf(i) == [regs |-> T.envs[i], mem |-> <<>>]

SmallCst(n, W) == [i \in 1..W |-> IF i > 20 THEN 0 ELSE (n \div Pow2(i - 1)) % 2]
RegLeaf(n, W, sf) == [k |-> "reg", w |-> W, sf |-> sf, n |-> n]
CstLeaf(v, sf) == [k |-> "cst", w |-> Len(v), sf |-> sf, v |-> v]
Leaves(W) == <<RegLeaf("a", W, 0), RegLeaf("b", W, 0), RegLeaf("c", W, 1), RegLeaf("d", W, 1),
               CstLeaf(Zero(W), 0), CstLeaf(One(W), 0), CstLeaf(Ones(W), 0), CstLeaf(Ones(W), 1),
               CstLeaf([i \in 1..W |-> IF i = W THEN 1 ELSE 0], 0),
               CstLeaf(SmallCst(W - 1, W), 0), CstLeaf(SmallCst(W, W), 0),
               [k |-> "slc", w |-> W, sf |-> 1, pos |-> 1, x |-> RegLeaf("e", W + 2, 0)],
               [k |-> "slc", w |-> W, sf |-> 0, pos |-> 1, x |-> RegLeaf("f", W + 2, 1)]>>

CmpOps == {"==", "!=", "<", "<=", ">", ">=", "<.", ">=."}

(* the tree a call denotes, from the trees of its operands *)
NewTree(e, P) ==
  CASE e.act = "bin" ->
         LET a == P[e.i] b == P[e.j] IN
         [k |-> "op", s |-> e.s, sf |-> 0, l |-> a, r |-> b,
          w |-> IF e.s \in CmpOps THEN 1 ELSE IF e.s = "**" THEN 2 * Width(a) ELSE Width(a),
          lsf |-> e.lsf, rsf |-> e.rsf, lc |-> e.lc, rc |-> e.rc]
    [] e.act = "un" -> [k |-> "uop", s |-> e.s, sf |-> 0, r |-> P[e.i], w |-> Width(P[e.i])]
    [] e.act = "slice" -> [k |-> "slc", sf |-> 0, x |-> P[e.i], pos |-> e.pos, w |-> e.n]
    [] e.act = "compose" -> [k |-> "comp", sf |-> 0, w |-> Width(P[e.i]) + Width(P[e.j]),
                             parts |-> <<[pos |-> 0, t |-> P[e.i]], [pos |-> Width(P[e.i]), t |-> P[e.j]]>>]
    [] e.act = "cond" -> [k |-> "tst", sf |-> 0, c |-> P[e.c], l |-> P[e.i], r |-> P[e.j], w |-> Width(P[e.i])]
    [] e.act = "ext" -> [k |-> "xt", sf |-> 0, sg |-> e.sg, x |-> P[e.i], w |-> e.w]
    [] e.act \in {"simplify", "pickle", "mapw", "setsf"} -> P[e.i]
    [] e.act = "mset" -> IF e.n = Width(P[e.j]) THEN P[e.j]
                         ELSE [k |-> "slc", sf |-> 0, x |-> P[e.j], pos |-> e.lo, w |-> e.n]
    [] e.act = "mget" -> mreg
    [] e.act = "subst" -> Subst(P[e.i], "a", P[e.j])

(* the content of register r after M[r[pos:pos+n]] = v *)
SetSlice(old, pos, v) ==
  LET w == Width(old) n == Width(v)
      lo == IF pos > 0 THEN <<[pos |-> 0, t |-> [k |-> "slc", sf |-> 0, x |-> old, pos |-> 0, w |-> pos]]>> ELSE <<>>
      hi == IF pos + n < w THEN <<[pos |-> pos + n, t |-> [k |-> "slc", sf |-> 0, x |-> old, pos |-> pos + n, w |-> w - pos - n]]>> ELSE <<>>
  IN [k |-> "comp", sf |-> 0, w |-> w, parts |-> lo \o <<[pos |-> pos, t |-> v]>> \o hi]

(* first disagreement between an observed tree and the denoted tree over the trace's valuations:
   0 if none, else the index of the valuation *)
RECURSIVE Disagree(_, _, _)
Disagree(obs, den, i) ==
  IF i > NEnv THEN 0
  ELSE LET a == Eval(obs, EnvOf(i), {}) IN
       IF IsU(a) THEN Disagree(obs, den, i + 1)
       ELSE LET b == Eval(den, EnvOf(i), {}) IN
            IF IsU(b) \/ a = b THEN Disagree(obs, den, i + 1) ELSE i

AlwaysUnknown(den) == \A i \in 1..NEnv : Poisoned(den, EnvOf(i))

(* verdict bookkeeping: first failure per property; deviations seen *)
Top(t) == IF t.k \in {"op", "uop"} THEN t.s ELSE t.k          \* outermost constructor, to key findings
Fail(v, prop, clause, h, i) ==
  IF v[prop] = "ok"
  THEN [v EXCEPT ![prop] = ToJson([line |-> l, clause |-> clause, h |-> h, env |-> i,
                                   top |-> IF h \in 1..Len(pool) THEN Top(pool[h]) ELSE "new",
                                   rsf |-> IF h \in 1..Len(pool) /\ pool[h].k = "op" THEN Rsf(pool[h]) ELSE 0,
                                   lw  |-> IF h \in 1..Len(pool) /\ pool[h].k = "op" THEN Width(pool[h].l) ELSE 0,
                                   aw  |-> IF h \in 1..Len(pool) /\ pool[h].k = "op" THEN Width(pool[h].r) ELSE 0])]
  ELSE v
MeaningFail(v, prop, clause, obs, den, h, i) ==
  LET got == Eval(obs, EnvOf(i), {}) d == Explains(den, EnvOf(i), got, Devs) IN
  IF d # "" THEN [v EXCEPT !.devs = @ \cup {d}] ELSE Fail(v, prop, clause, h, i)

(* checks on one live entry x = [h, tree] given the pool after the call; newh = index of the new handle *)
CheckLive(v, x, P, newh) ==
  LET den == P[x.h] isnew == x.h = newh IN
  IF x.tree.w # Width(den) THEN Fail(v, IF isnew THEN "C12" ELSE "C13", IF isnew THEN "Width" ELSE "FrameWidth", x.h, 0)
  ELSE IF x.tree.k \in {"top", "vec"} THEN v
  ELSE IF ~WellSized(x.tree) THEN Fail(v, "C12", "Tiles", x.h, 0)
  ELSE LET i == Disagree(x.tree, den, 1) IN
       IF i = 0 THEN v
       ELSE MeaningFail(v, IF isnew THEN "C01" ELSE "C13", IF isnew THEN "Meaning" ELSE "Frame", x.tree, den, x.h, i)

RECURSIVE CheckAllLive(_, _, _, _, _)
CheckAllLive(v, L, k, P, newh) ==
  IF k > Len(L) THEN v ELSE CheckAllLive(CheckLive(v, L[k], P, newh), L, k + 1, P, newh)

(* amoco's own evaluation: vals[i][h] *)
CheckVal(v, r, den, h, i) ==
  IF r.k = "raised" THEN (IF Poisoned(den, EnvOf(i)) THEN v ELSE Fail(v, "C01", "EvalTotal", h, i))
  ELSE IF r.w # Width(den) THEN Fail(v, "C12", "EvalWidth", h, i)
  ELSE IF r.k # "cst" THEN v
  ELSE LET b == Eval(den, EnvOf(i), {}) IN
       IF IsU(b) \/ b = r.v THEN v
       ELSE LET d == Explains(den, EnvOf(i), r.v, Devs) IN
            IF d # "" THEN [v EXCEPT !.devs = @ \cup {d}] ELSE Fail(v, "C01", "EvalConst", h, i)

RECURSIVE CheckVals(_, _, _, _, _)
CheckVals(v, vals, P, i, h) ==
  IF i > Len(vals) THEN v
  ELSE IF h > Len(vals[i]) THEN CheckVals(v, vals, P, i + 1, 1)
  ELSE CheckVals(CheckVal(v, vals[i][h], P[vals[i][h].h], vals[i][h].h, i), vals, P, i, h + 1)

Init == /\ tid \in 1..Len(Traces)
        /\ l = 1
        /\ pool = Leaves(Traces[tid].w)
        /\ mreg = RegLeaf("r", 2 * Traces[tid].w, 0)
        /\ verdict = [C01 |-> "ok", C12 |-> "ok", C13 |-> "ok", devs |-> {}]
        /\ done = FALSE

Step ==
  /\ ~done /\ l <= Len(T.ev)
  /\ l' = l + 1 /\ UNCHANGED <<tid, done>>
  /\ LET e == T.ev[l] IN
     IF e.act = "evals"
     THEN /\ UNCHANGED <<pool, mreg>>
          /\ verdict' = CheckVals(verdict, e.vals, pool, 1, 1)
     ELSE IF e.act = "frame"
     THEN /\ UNCHANGED <<pool, mreg>>
          /\ verdict' = CheckAllLive(verdict, e.live, 1, pool, 0)
     ELSE LET t == NewTree(e, pool) P == Append(pool, t) newh == Len(P) IN
          /\ pool' = P
          /\ mreg' = IF e.act = "mset" THEN SetSlice(mreg, e.pos, t) ELSE mreg
          /\ verdict' =
               IF e.raised # ""
               THEN (IF AlwaysUnknown(t) THEN verdict ELSE Fail(verdict, "C01", "Total", newh, 0))
               ELSE LET v1 == IF e.act \in {"pickle", "mapw"} /\ e.same = 0 THEN Fail(verdict, "C13", "Pickle", newh, 0) ELSE verdict
                    IN CheckAllLive(v1, e.live, 1, P, newh)

Finish ==
  /\ ~done /\ l > Len(T.ev)
  /\ done' = TRUE
  /\ PrintT(ToJson([t |-> T.t, C01 |-> verdict.C01, C12 |-> verdict.C12, C13 |-> verdict.C13,
                    devs |-> verdict.devs, lines |-> l - 1]))
  /\ UNCHANGED <<tid, l, pool, mreg, verdict>>

Next == Step \/ Finish
Spec == Init /\ [][Next]_vars
=============================================================================
