-------------------------------- MODULE Merge --------------------------------
(***************************************************************************)
(* C19 - merging two maps over-approximates both.                           *)
(*                                                                          *)
(* Two branch maps m1, m2 are built from a common prefix by micro-          *)
(* operations                                                               *)
(*   reg  r := value kind e        (whole register, RB bytes)               *)
(*   flag f := value kind e        (a register of the FLAGS type)           *)
(*   st   [p+off] := n bytes of value kind e   (memory through one pointer) *)
(*   pp   p := p + k               (the pointer's base register moves: the  *)
(*                                  later stores of the map go to p+k+off;   *)
(*                                  map keys stay relative to the INPUT p)   *)
(* A value is a sequence of byte cells; a cell is a SET of byte tags (the   *)
(* candidates: a vec) or UCell (top / vecw). Tags <<"k", e, k>> are byte k of *)
(* value kind e, <<"in:r", k, 0>> the input value of register r, <<"m",o,0>> *)
(* the initial memory byte at p+o; two operations that store the same kind  *)
(* store the same value (vec.simplify de-duplicates).                       *)
(*                                                                          *)
(* A map is implementation-shaped: the ordered item list (one item per      *)
(* register / per memory key p+off, as mapper.__setitem__ keeps it) and the *)
(* byte store of zone p. MergeImpl transcribes merge() (mapper.py:427-472): *)
(* first loop over the items of m1 (the other value is READ from m2 with    *)
(* the size of m1's item; flags get top), second loop over the items of m2  *)
(* that mm does not have yet; every joined value goes through               *)
(* vec([v1,v2]).simplify: de-duplication, widening (-> vecw = unknown) and  *)
(* the complexity threshold (-> top; the model lets the threshold fire or   *)
(* not nondeterministically, so the invariants hold for ANY complexity      *)
(* measure and threshold).                                                  *)
(*                                                                          *)
(* Invariants, per byte cell of every register and of memory p+0..p+MaxOff: *)
(*   Covers     the candidates of m1 and of m2 are candidates of mm, or mm  *)
(*              is unknown there                                            *)
(*   Untouched  a cell written by neither map is left as it is              *)
(* Quirk (amoco as it is, named deviation):                                 *)
(*   SkipWiderSecond  the second loop skips a memory key that mm already    *)
(*              has although m2's item is WIDER than m1's: the upper bytes  *)
(*              m2 wrote are lost (merge of (p)<-x[0:16] with (p)<-y).      *)
(*              Repaired: the first loop joins at the wider of the two.     *)
(*   StaleItems  merge() joins the RECORDED value of an item, not what the  *)
(*              location holds at the end of its map, and creates m1's keys *)
(*              first: when a later item of m2 overlaps an earlier one and  *)
(*              m1 has the later key, the stale bytes of the earlier item   *)
(*              are written last ((p)<-a in m1; (p+1)<-b, (p)<-c16 in m2:   *)
(*              byte p+1 of the merge lacks c[8:16]). Repaired: both sides  *)
(*              are read.                                                   *)
(*   TopReadAsBottom  _Mem_read (mapper.py:220) takes an UNKNOWN part of a  *)
(*              zone object (top, vecw: not _is_def) for an unwritten one   *)
(*              and returns the initial memory instead: a byte merged to    *)
(*              unknown reads back as if nothing had been written.          *)
(***************************************************************************)
EXTENDS Integers, Sequences, FiniteSets, TLC, Json

CONSTANTS Regs, Flags,   \* register names (strings)
          RB,            \* bytes per register
          Offsets, Sizes,\* memory keys p+off and store sizes in bytes
          Kinds,         \* value kinds
          PPs,           \* amounts by which a branch may move the pointer register ({} = never)
          MaxPre, MaxB,  \* operations in the prefix / in each branch
          Widen,         \* set of widening settings to explore
          Thr,           \* set of BOOLEAN: may the complexity threshold fire
          Conds,         \* path-condition choices per branch (0 = none; carried to the replayer only)
          Q,             \* quirks enabled ({"SkipWiderSecond"} = amoco as it is)
          Gen

VARIABLES pre, b1, b2, w, t, cd
vars == <<pre, b1, b2, w, t, cd>>

MaxS(S) == CHOOSE x \in S : \A y \in S : y <= x
MaxOff == MaxS(Offsets) + MaxS(Sizes) - 1 + (IF PPs = {} THEN 0 ELSE (MaxPre + MaxB) * MaxS(PPs))
Cells == [k : {"r"}, r : Regs \cup Flags, i : 0..(RB - 1)] \cup [k : {"m"}, o : 0..MaxOff]

(* tags are <<string, int, int>> so that TLC can compare any two of them *)
ValOf(e, n) == [k \in 1..n |-> {<<"k", e, k - 1>>}]
InReg(r)    == [k \in 1..RB |-> {<<"in:" \o r, k - 1, 0>>}]
InMem(o)    == {<<"m", o, 0>>}
UCell       == {<<"U", 0, 0>>}                       \* the unknown cell (top / vecw)
TopVal(n)   == [k \in 1..n |-> UCell]

(* ---- a map: [items, zone]; item = [reg, val] | [off, val] ---------------- *)
EmptyMap == [items |-> <<>>, zone |-> <<>>, sh |-> 0]        \* sh: what the map has added to p so far
RIdx(m, r) == LET S == {i \in 1..Len(m.items) : "reg" \in DOMAIN m.items[i] /\ m.items[i].reg = r} IN IF S = {} THEN 0 ELSE MaxS(S)
MIdx(m, o) == LET S == {i \in 1..Len(m.items) : "off" \in DOMAIN m.items[i] /\ m.items[i].off = o} IN IF S = {} THEN 0 ELSE MaxS(S)
RemoveAt(s, i) == SubSeq(s, 1, i - 1) \o SubSeq(s, i + 1, Len(s))
ZWrite(z, o, val) == [a \in (DOMAIN z) \cup {o + j : j \in 0..(Len(val) - 1)} |->
                        IF a >= o /\ a < o + Len(val) THEN val[a - o + 1] ELSE z[a]]
SetReg(m, r, val) ==
  LET i == RIdx(m, r) e == [reg |-> r, val |-> val] IN
  [m EXCEPT !.items = IF i > 0 THEN [@ EXCEPT ![i] = e] ELSE Append(@, e)]
SetMem(m, o, val) ==            \* mapper.__setitem__, pointer branch (little endian)
  LET i == MIdx(m, o)
      r == IF i > 0 /\ Len(m.items[i].val) > Len(val)
           THEN val \o SubSeq(m.items[i].val, Len(val) + 1, Len(m.items[i].val)) ELSE val
      it == IF i > 0 THEN RemoveAt(m.items, i) ELSE m.items
  IN [m EXCEPT !.items = Append(it, [off |-> o, val |-> r]), !.zone = ZWrite(m.zone, o, r)]
GetReg(m, r) == LET i == RIdx(m, r) IN IF i > 0 THEN m.items[i].val ELSE InReg(r)         \* m[r]
GetMem(m, o, n) == [k \in 1..n |-> IF (o + k - 1) \in DOMAIN m.zone /\ ~("TopReadAsBottom" \in Q /\ m.zone[o + k - 1] = UCell)
                                    THEN m.zone[o + k - 1] ELSE InMem(o + k - 1)]  \* m[mem(p+o, 8n)]
HasMem(m, o) == MIdx(m, o) > 0
HasReg(m, r) == RIdx(m, r) > 0

Step(m, op) ==
  CASE op.o = "reg"  -> SetReg(m, op.r, ValOf(op.e, RB))
    [] op.o = "flag" -> SetReg(m, op.r, ValOf(op.e, RB))
    [] op.o = "st"   -> SetMem(m, op.off + m.sh, ValOf(op.e, op.n))    \* loc = k.addr(self): p read in the map
    [] op.o = "pp"   -> [m EXCEPT !.sh = @ + op.k]
RECURSIVE Run(_, _)
Run(m, ops) == IF ops = <<>> THEN m ELSE Run(Step(m, Head(ops)), Tail(ops))

(* ---- vec([v1, v2]).simplify(widening) ------------------------------------ *)
IsTop(v) == \E k \in 1..Len(v) : v[k] = UCell
Join(v1, v2, wd, fire) ==
  IF IsTop(v1) \/ IsTop(v2) THEN TopVal(Len(v1))                 \* "if not ee._is_def: return ee"
  ELSE IF v1 = v2 THEN v1                                          \* de-duplicated to one alternative
  ELSE IF wd \/ fire THEN TopVal(Len(v1))                          \* vecw / complexity threshold -> unknown
  ELSE [k \in 1..Len(v1) |-> v1[k] \cup v2[k]]

(* ---- merge() --------------------------------------------------------------- *)
RECURSIVE Loop(_, _, _, _, _, _, _)
Loop(mm, items, own, other, first, wd, fire) ==
  \* items: the remaining items of `own`; `other` is read; first = TRUE in the loop over m1
  IF items = <<>> THEN mm
  ELSE LET it == Head(items) IN
       IF "reg" \in DOMAIN it
       THEN IF ~first /\ HasReg(mm, it.reg) THEN Loop(mm, Tail(items), own, other, first, wd, fire)
            ELSE LET v2 == IF it.reg \in Flags THEN TopVal(RB) ELSE GetReg(other, it.reg) IN
                 Loop(SetReg(mm, it.reg, Join(it.val, v2, wd, fire)), Tail(items), own, other, first, wd, fire)
       ELSE IF ~first /\ HasMem(mm, it.off) THEN Loop(mm, Tail(items), own, other, first, wd, fire)
            ELSE LET j  == MIdx(other, it.off)
                     n  == IF "SkipWiderSecond" \notin Q /\ first /\ j > 0 /\ Len(other.items[j].val) > Len(it.val)
                           THEN Len(other.items[j].val) ELSE Len(it.val)        \* repaired: join at the wider size
                     v1 == IF n = Len(it.val) /\ "StaleItems" \in Q THEN it.val ELSE GetMem(own, it.off, n)
                     v2 == GetMem(other, it.off, n)
                 IN Loop(SetMem(mm, it.off, Join(v1, v2, wd, fire)), Tail(items), own, other, first, wd, fire)
MergeImpl(m1, m2, wd, fire) ==
  Loop(Loop(EmptyMap, m1.items, m1, m2, TRUE, wd, fire), m2.items, m2, m1, FALSE, wd, fire)

(* ---- meaning: candidates per byte cell --------------------------------------- *)
Cand(m, c) == IF c.k = "r" THEN GetReg(m, c.r)[c.i + 1] ELSE GetMem(m, c.o, 1)[1]
Init0(c)   == IF c.k = "r" THEN InReg(c.r)[c.i + 1] ELSE InMem(c.o)

M1 == Run(Run(EmptyMap, pre), b1)
M2 == Run(Run(EmptyMap, pre), b2)
MM == MergeImpl(M1, M2, w, t)

Covers    == LET m1 == M1 m2 == M2 mm == MM IN
             \A c \in Cells : LET x == Cand(mm, c) IN
                              x = UCell \/ (Cand(m1, c) \subseteq x /\ Cand(m2, c) \subseteq x)
Untouched == LET m1 == M1 m2 == M2 mm == MM IN
             \A c \in Cells : (Cand(m1, c) = Init0(c) /\ Cand(m2, c) = Init0(c)) => Cand(mm, c) = Init0(c)
(* the item keys of mm are item keys of m1 or m2 *)
KeysOK == LET K(m) == {IF "reg" \in DOMAIN m.items[i] THEN <<"r", m.items[i].reg>> ELSE <<"m", m.items[i].off>> : i \in 1..Len(m.items)}
          IN K(MM) \subseteq K(M1) \cup K(M2)

(* ---- behaviours --------------------------------------------------------------- *)
Ops == [o : {"reg"}, r : Regs, e : Kinds] \cup [o : {"flag"}, r : Flags, e : Kinds]
       \cup [o : {"st"}, off : Offsets, n : Sizes, e : Kinds] \cup [o : {"pp"}, k : PPs]

Init == pre = <<>> /\ b1 = <<>> /\ b2 = <<>> /\ w \in Widen /\ t \in Thr /\ cd \in Conds \X Conds
Next == /\ UNCHANGED <<w, t, cd>>
        /\ \E op \in Ops :
             \/ /\ b1 = <<>> /\ b2 = <<>> /\ Len(pre) < MaxPre /\ pre' = Append(pre, op) /\ UNCHANGED <<b1, b2>>
             \/ /\ b2 = <<>> /\ Len(b1) < MaxB /\ b1' = Append(b1, op) /\ UNCHANGED <<pre, b2>>
             \/ /\ Len(b2) < MaxB /\ b2' = Append(b2, op) /\ UNCHANGED <<pre, b1>>
Spec == Init /\ [][Next]_vars

Emit == (Gen /\ Len(b2) = MaxB) =>
          PrintT(ToJson([pre |-> pre, b1 |-> b1, b2 |-> b2, w |-> IF w THEN 1 ELSE 0, t |-> IF t THEN 1 ELSE 0,
                         c1 |-> cd[1], c2 |-> cd[2]]))
=============================================================================
