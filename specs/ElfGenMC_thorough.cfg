\* C14 M (ELF): Report(Encode(A)) = Expected(A) for every image of a larger scope (thorough tier), all 4 class x order combinations
CONSTANTS
  Dev = ""
  Classes = {32, 64}
  Orders = {"LE", "BE"}
  Seeds = {11}
  MaxPh = 2
  MaxUser = 2
  MaxSym = 2
  Machines = {3}
  Types = {2}
  PTypes = {1, 4}
  Layouts = {2, 5}
  Pads = {0}
  Kinds = {"bits", "nobits", "plain"}
  SymChoices = {TRUE, FALSE}
INIT Init
NEXT Next
INVARIANT RoundTrip
CHECK_DEADLOCK FALSE
