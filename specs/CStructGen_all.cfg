\* M+G (thorough, exhaustive, flat): every struct / packed struct / union of <= 3 members over the size classes 1, 2, 8, pointer and a byte string; scalars and arrays of 3; both pointer sizes. Invariants of the model are checked on every case and every case is emitted for replay.
CONSTANTS
  RawT = {"B", "h", "q", "P", "s"}
  ArrN = {3}
  NestN = {2}
  Ords = {""}
  DefOrds = {""}
  DefKinds = {"struct", "packed", "union"}
  MaxF = 3
  MaxIF = 0
  MinF = 1
  MaxDepth = 0
  Feat = {}
  BitSplits <- BitSplitsNone
  PS = {32, 64}
  VCs = {"pat"}
  Stride = 1
  Dev = {}
  Mode = "gen"
INIT Init
NEXT Next
INVARIANT LayoutOK
INVARIANT SizeOK
INVARIANT RoundTrip
INVARIANT Monotone
CONSTRAINT Emit
CHECK_DEADLOCK FALSE
