------------------------------- MODULE MemZone -------------------------------
(***************************************************************************)
(* C08 - amoco's abstract memory (system/memory.py) as a last-write-wins    *)
(* byte store.                                                              *)
(*                                                                          *)
(* Two descriptions run in lockstep:                                        *)
(*   store : the ABSTRACT meaning. Per map, per zone, a function from the   *)
(*           addresses written so far to cells <<w,k>> = "byte k, in        *)
(*           memory order, of write number w". An address outside the       *)
(*           domain is undefined.                                           *)
(*   zmap  : the IMPLEMENTATION-SHAPED state. Per map, per zone, the sorted *)
(*           list of memory objects that MemoryZone._map holds; AddToMap    *)
(*           below is a branch-by-branch transcription of                   *)
(*           MemoryZone.addtomap / mo.write / datadiv.setpart / mergeparts  *)
(*           (line references: memory.py of the pinned tree).               *)
(* Refines == Abs(zmap) = store is the property C08 at design level.        *)
(*                                                                          *)
(* The same module, under the generator configs, carries the history `h`    *)
(* of actions with the expected abstract store after each of them; these    *)
(* behaviours are replayed on real MemoryMap objects (harness/c08.py).      *)
(***************************************************************************)
EXTENDS Integers, Sequences, FiniteSets, TLC, Json

CONSTANTS MaxAddr,   \* writes start in 0..MaxAddr
          Sizes,     \* byte lengths of writes
          MaxOps,    \* bound on the number of actions of a behaviour
          Zones,     \* zone names, "none" is the concrete zone
          Maps,      \* 1..Maps memory maps (map 1 is the main one, map 2 gets merged into it)
          Shifts,    \* offsets for the Shift action (may be empty)
          GenHist,   \* TRUE: record the history (generator configs)
          Dev        \* set of names of deviation (fault) actions enabled; {} for the real design

VARIABLES store, zmap, nw, nops, h
vars == <<store, zmap, nw, nops, h>>

MapIds == 1..Maps
ShiftsA == {-1}          \* cfg files cannot write negative numbers
ShiftsB == {-3, 1, 16}
Undef  == <<0, 0>>

-----------------------------------------------------------------------------
(* Memory objects: [va, raw, cells]                                         *)
End(m)         == m.va + Len(m.cells)
Contains(m, a) == m.va <= a /\ a < End(m)
Mo(va, raw, cells) == [va |-> va, raw |-> raw, cells |-> cells]

(* MemoryZone.locate (memory.py:247): index (1-based) of the object whose   *)
(* start is a; else the last object starting before a; 0 stands for None.   *)
Locate(zm, a) ==
  IF \E i \in 1..Len(zm) : zm[i].va = a
  THEN CHOOSE i \in 1..Len(zm) : zm[i].va = a /\ \A j \in 1..(i-1) : zm[j].va # a
  ELSE Cardinality({i \in 1..Len(zm) : zm[i].va < a})

(* mergeparts (memory.py:595): adjacent raw parts are concatenated.         *)
RECURSIVE MergeParts(_, _)
MergeParts(acc, P) ==
  IF P = <<>> THEN acc
  ELSE LET p == Head(P) last == acc[Len(acc)] IN
       IF last.raw /\ p.raw
       THEN MergeParts([acc EXCEPT ![Len(acc)] = [raw |-> TRUE, cells |-> last.cells \o p.cells]], Tail(P))
       ELSE MergeParts(Append(acc, p), Tail(P))

(* datadiv.setpart (memory.py:581): overwrite object m at offset o with z.  *)
SetPart(m, o, z) ==
  LET new  == [raw |-> z.raw, cells |-> z.cells]
      olv  == o + Len(z.cells)
      endl == Len(m.cells) - olv
      tail == IF endl > 0 THEN <<[raw |-> m.raw, cells |-> SubSeq(m.cells, olv + 1, Len(m.cells))]>> ELSE <<>>
      head == IF o > 0 THEN <<[raw |-> m.raw, cells |-> SubSeq(m.cells, 1, o)]>> ELSE <<>>
      P    == head \o <<new>> \o tail
  IN MergeParts(<<Head(P)>>, Tail(P))

(* consecutive objects from a list of parts starting at address va          *)
RECURSIVE Place(_, _)
Place(va, P) == IF P = <<>> THEN <<>>
                ELSE <<Mo(va, Head(P).raw, Head(P).cells)>> \o Place(va + Len(Head(P).cells), Tail(P))

(* mo.write (memory.py:474): the object itself (rewritten in place) followed *)
(* by the new objects to insert after it; a gap leaves it alone.            *)
MoWrite(m, z) ==
  IF Contains(m, z.va) \/ z.va = End(m)
  THEN Place(m.va, SetPart(m, z.va - m.va, z))
  ELSE <<m, z>>

(* mo.trim (memory.py:458)                                                  *)
Trim(m, a) == IF Contains(m, a) THEN Mo(a, m.raw, SubSeq(m.cells, a - m.va + 1, Len(m.cells))) ELSE m

Splice(zm, lo, hi, Z) == SubSeq(zm, 1, lo) \o Z \o SubSeq(zm, hi, Len(zm))
   \* keeps zm[1..lo], then Z, then zm[hi..]

(* MemoryZone.addtomap (memory.py:307), branch names as in DESIGN.md A.1    *)
Branch(zm, z) ==
  LET i == Locate(zm, z.va) j == Locate(zm, End(z)) IN
  IF j = 0 THEN "A_Before"
  ELSE IF i = j THEN "A_Same"
  ELSE (IF Contains(zm[j], End(z)) THEN "A_TrimJ" ELSE "A_DropJ") \o
       (IF i = 0 THEN "_NoLeft" ELSE IF z.va <= End(zm[i]) THEN "_MergeLeft" ELSE "_GapLeft")

AddToMap(zm, z) ==
  LET i == Locate(zm, z.va) j == Locate(zm, End(z)) IN
  IF j = 0 THEN <<z>> \o zm
  ELSE IF i = j THEN Splice(zm, i - 1, i + 1, MoWrite(zm[i], z))
  ELSE
    LET trimj == Contains(zm[j], End(z)) /\ "DropJAlways" \notin Dev   \* Dev: fault used by the self-test
        zm1   == IF trimj THEN [zm EXCEPT ![j] = Trim(zm[j], End(z))] ELSE zm
        jj    == IF trimj THEN j ELSE j + 1            \* first object kept on the right
    IN IF i = 0 THEN Splice(zm1, 0, jj, <<z>>)
       ELSE IF z.va <= End(zm1[i])
            THEN Splice(zm1, i - 1, jj, MoWrite(zm1[i], z))
            ELSE Splice(zm1, i, jj, <<z>>)

(* MemoryZone.restruct (memory.py:358)                                      *)
RECURSIVE RestructR(_, _)
RestructR(acc, rest) ==
  IF rest = <<>> THEN acc
  ELSE LET z == Head(rest) last == acc[Len(acc)] IN
       IF z.raw /\ last.raw /\ z.va = End(last)
       THEN RestructR([acc EXCEPT ![Len(acc)] = Mo(last.va, TRUE, last.cells \o z.cells)], Tail(rest))
       ELSE RestructR(Append(acc, z), Tail(rest))
Restruct(zm) == IF zm = <<>> THEN zm ELSE RestructR(<<Head(zm)>>, Tail(zm))

ShiftZ(zm, d) == [i \in 1..Len(zm) |-> [zm[i] EXCEPT !.va = @ + d]]

RECURSIVE AddAll(_, _)
AddAll(zm, objs) == IF objs = <<>> THEN zm ELSE AddAll(AddToMap(zm, Head(objs)), Tail(objs))

-----------------------------------------------------------------------------
(* Abstraction function and abstract operations                             *)
AbsZ(zm) ==
  LET A == UNION {m.va .. (End(m) - 1) : m \in {zm[i] : i \in 1..Len(zm)}} IN
  [a \in A |-> LET i == CHOOSE i \in 1..Len(zm) : Contains(zm[i], a) IN zm[i].cells[a - zm[i].va + 1]]

WriteS(s, a, w, n) == [b \in (DOMAIN s) \cup (a..(a + n - 1)) |->
                          IF b >= a /\ b < a + n THEN <<w, b - a>> ELSE s[b]]
ShiftS(s, d)  == [b \in {c + d : c \in DOMAIN s} |-> s[b - d]]
OverS(s, t)   == [b \in (DOMAIN s) \cup (DOMAIN t) |-> IF b \in DOMAIN t THEN t[b] ELSE s[b]]
EmptyS        == [b \in {} |-> Undef]

-----------------------------------------------------------------------------
(* Invariants                                                               *)
SortedZ(zm)    == \A i \in 1..(Len(zm) - 1) : End(zm[i]) <= zm[i + 1].va
NonEmptyZ(zm)  == \A i \in 1..Len(zm) : Len(zm[i].cells) > 0
AllZ(P(_))     == \A m \in MapIds : \A z \in Zones : P(zmap[m][z])

Sorted   == AllZ(SortedZ)
NonEmpty == AllZ(NonEmptyZ)
Refines  == \A m \in MapIds : \A z \in Zones : AbsZ(zmap[m][z]) = store[m][z]

-----------------------------------------------------------------------------
(* History (generator configs only)                                         *)
Snap(s) == {<<a, s[a][1], s[a][2]>> : a \in DOMAIN s}
Layout(zm) == [i \in 1..Len(zm) |-> <<zm[i].va, Len(zm[i].cells), IF zm[i].raw THEN 1 ELSE 0>>]
Rec(op, m, z, a, n, raw, en, br, st2, zm2) ==
  [op |-> op, m |-> m, z |-> z, a |-> a, n |-> n, raw |-> IF raw THEN 1 ELSE 0, en |-> en, br |-> br,
   st |-> [mm \in MapIds |-> [zz \in Zones |-> Snap(st2[mm][zz])]],
   lay |-> [mm \in MapIds |-> [zz \in Zones |-> Layout(zm2[mm][zz])]]]
Log(r) == h' = IF GenHist THEN Append(h, r) ELSE h

-----------------------------------------------------------------------------
Init == /\ store = [m \in MapIds |-> [z \in Zones |-> EmptyS]]
        /\ zmap  = [m \in MapIds |-> [z \in Zones |-> <<>>]]
        /\ nw = 0 /\ nops = 0 /\ h = <<>>

(* write number nw+1: n bytes at a, raw bytes / constant (raw) or symbolic  *)
(* value (not raw) stored with endianness en                                *)
Write(m, z, a, n, raw, en) ==
  /\ nops < MaxOps
  /\ LET w   == nw + 1
         obj == Mo(a, raw, [k \in 1..n |-> <<w, k - 1>>])
         zm2 == [zmap EXCEPT ![m][z] = AddToMap(@, obj)]
         st2 == [store EXCEPT ![m][z] = WriteS(@, a, w, n)]
     IN /\ zmap' = zm2 /\ store' = st2
        /\ Log(Rec("write", m, z, a, n, raw, en, Branch(zmap[m][z], obj), st2, zm2))
  /\ nw' = nw + 1 /\ nops' = nops + 1

DoRestruct(m) ==
  /\ nops < MaxOps /\ nw > 0
  /\ LET zm2 == [zmap EXCEPT ![m] = [z \in Zones |-> Restruct(zmap[m][z])]] IN
     /\ zmap' = zm2 /\ Log(Rec("restruct", m, "none", 0, 0, TRUE, 1, "", store, zm2))
  /\ UNCHANGED <<store, nw>> /\ nops' = nops + 1

(* MemoryMap.copy = per zone: copy every object, then restruct              *)
DoCopy(m) ==
  /\ nops < MaxOps /\ nw > 0
  /\ LET zm2 == [zmap EXCEPT ![m] = [z \in Zones |-> Restruct(zmap[m][z])]] IN
     /\ zmap' = zm2 /\ Log(Rec("copy", m, "none", 0, 0, TRUE, 1, "", store, zm2))
  /\ UNCHANGED <<store, nw>> /\ nops' = nops + 1

DoShift(m, z, d) ==
  /\ nops < MaxOps /\ zmap[m][z] # <<>>
  /\ LET zm2 == [zmap EXCEPT ![m][z] = ShiftZ(@, d)]
         st2 == [store EXCEPT ![m][z] = ShiftS(@, d)]
     IN /\ zmap' = zm2 /\ store' = st2 /\ Log(Rec("shift", m, z, d, 0, TRUE, 1, "", st2, zm2))
  /\ UNCHANGED nw /\ nops' = nops + 1

(* MemoryMap.merge(other) (memory.py:170): objects of map 2 are added, in   *)
(* order, to map 1; map 2 is consumed (it shares objects with map 1 after). *)
DoMerge ==
  /\ Maps = 2 /\ nops < MaxOps
  /\ \E z \in Zones : zmap[2][z] # <<>>
  /\ LET zm2 == [zmap EXCEPT ![1] = [z \in Zones |->
                                        \* a symbolic zone that map 1 does not have yet is adopted as it is
                                        IF z # "none" /\ zmap[1][z] = <<>> THEN zmap[2][z]
                                        ELSE AddAll(zmap[1][z], zmap[2][z])],
                             ![2] = [z \in Zones |-> <<>>]]
         st2 == [store EXCEPT ![1] = [z \in Zones |-> OverS(store[1][z], store[2][z])],
                              ![2] = [z \in Zones |-> EmptyS]]
     IN /\ zmap' = zm2 /\ store' = st2 /\ Log(Rec("merge", 1, "none", 0, 0, TRUE, 1, "", st2, zm2))
  /\ UNCHANGED nw /\ nops' = nops + 1

Next ==
  \/ \E m \in MapIds, z \in Zones, a \in 0..MaxAddr, n \in Sizes :
        \/ Write(m, z, a, n, TRUE, 1)
        \/ \E en \in {1, -1} : Write(m, z, a, n, FALSE, en)
  \/ \E m \in MapIds : DoRestruct(m) \/ DoCopy(m)
  \/ \E m \in MapIds, z \in Zones, d \in Shifts : DoShift(m, z, d)
  \/ DoMerge

Spec == Init /\ [][Next]_vars

(* generator: print each complete behaviour once                            *)
Emit == (nops = MaxOps) => PrintT(ToJson(h))
=============================================================================
