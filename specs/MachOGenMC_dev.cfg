\* C14 self-test: a reader that steps over 64-bit section headers with the 32-bit size must violate RoundTrip
CONSTANTS
  Dev = "Sect64As32"
  Is64s = {TRUE}
  Seeds = {9}
  NSects = {2}
  DataKinds = {"none"}
  EntryKinds = {"main"}
  NSyms = {9}
  Extras = {FALSE}
  PageZeros = {FALSE}
INIT Init
NEXT Next
INVARIANT RoundTrip
CHECK_DEADLOCK FALSE
