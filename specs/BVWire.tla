------------------------------- MODULE BVWire -------------------------------
(***************************************************************************)
(* Helpers shared by the C06 specifications (RVIsa, X86): conversions       *)
(* between specs/lib/BitVec.tla bit-vectors (sequences of bits, LSB first)  *)
(* and the wire formats used in behaviours and traces: naturals for short   *)
(* fields, little-endian 16-bit limbs for register values (TLC integers are *)
(* 32-bit), byte sequences for memory.  Candidates for specs/lib/BitVec.tla *)
(* (BNat/NBits are linear-time variants of ToNat/FromNat that do not        *)
(* overflow at width 31/32).                                                *)
(***************************************************************************)
EXTENDS BitVec

(* value of a short bit-vector as a natural (Horner, MSB first) *)
RECURSIVE BNatR(_, _, _)
BNatR(v, i, acc) == IF i < 1 THEN acc ELSE BNatR(v, i - 1, 2 * acc + v[i])
BNat(v) == BNatR(v, Len(v), 0)
RECURSIVE NBitsR(_, _, _)
NBitsR(n, w, acc) == IF Len(acc) = w THEN acc ELSE NBitsR(n \div 2, w, Append(acc, n % 2))
NBits(n, w) == NBitsR(n, w, <<>>)                     \* natural -> w bits

(* wire format: a value of width w as little-endian 16-bit limbs (TLC integers are 32-bit) *)
P16 == <<1, 2, 4, 8, 16, 32, 64, 128, 256, 512, 1024, 2048, 4096, 8192, 16384, 32768>>
NLimbs(w) == (w + 15) \div 16
FromLimbs(l, w) == [i \in 1..w |-> (l[((i - 1) \div 16) + 1] \div P16[((i - 1) % 16) + 1]) % 2]
ToLimbs(v) == LET w == Len(v) IN
              [k \in 1..NLimbs(w) |-> BNat(Slice(v, 16 * (k - 1), IF 16 * k <= w THEN 16 ELSE w - 16 * (k - 1)))]
(* bytes (naturals 0..255), little-endian, <-> bit-vector *)
BytesToBV(bs) == [i \in 1..(8 * Len(bs)) |-> (bs[((i - 1) \div 8) + 1] \div P16[((i - 1) % 8) + 1]) % 2]
BVToBytes(v) == [k \in 1..(Len(v) \div 8) |-> BNat(Slice(v, 8 * (k - 1), 8))]
=============================================================================
