\* C09 G (-simulate): three pointers, offsets -2..3, sizes {1,2,4} (scaled x1/x2 by the replayer: 8..64 bits),
\* 6 micro-operations, every configuration
CONSTANTS
  Ptrs = {"p", "q", "s"}
  Offs <- OffsNeg
  Sizes = {1, 2, 4}
  Deltas <- DeltasWide
  P0 = 12
  Top = 30
  NAs = {FALSE, TRUE}
  MTs = {TRUE, FALSE}
  Ens <- EnsBoth
  MInits = {0, 1}
  VKs = {"d", "c", "r"}
  MaxSt = 5
  MaxLd = 3
  MaxLen = 6
  Template <- NoTemplate
  Q = {}
  Clauses <- AllClauses
  Probe = FALSE
  PvInState = TRUE
  Gen = TRUE
INIT Init
NEXT Next
CHECK_DEADLOCK FALSE
CONSTRAINT Emit
