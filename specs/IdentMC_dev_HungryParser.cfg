\* self-test: the seeded fault HungryParser must be rejected (INVARIANT InvTotal)
CONSTANTS
  Dev = {"HungryParser"}
  Mode = "mc"
SPECIFICATION Spec
INVARIANT InvTotal
CHECK_DEADLOCK FALSE
