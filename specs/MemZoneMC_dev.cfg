\* self-test: the fault DropJAlways must violate Refines
CONSTANTS
  MaxAddr = 5
  Sizes = {1, 2, 3}
  MaxOps = 3
  Zones = {"none"}
  Maps = 1
  Shifts = {}
  GenHist = FALSE
  Dev = {"DropJAlways"}
INIT Init
NEXT Next
INVARIANT Sorted
INVARIANT NonEmpty
INVARIANT Refines
CHECK_DEADLOCK FALSE
