\* C19 finding: with _Mem_read as it is (an unknown part of a zone object read as unwritten) a widened merge must violate Covers
CONSTANTS
  Regs = {"a"}
  Flags = {"f"}
  RB = 2
  Offsets = {0, 1}
  Sizes = {1, 2}
  Kinds = {1, 2}
  PPs = {}
  MaxPre = 0
  MaxB = 1
  Widen = {TRUE}
  Thr = {FALSE}
  Conds = {0}
  Q = {"TopReadAsBottom"}
  Gen = FALSE
INIT Init
NEXT Next
CHECK_DEADLOCK FALSE
INVARIANTS Covers Untouched KeysOK
