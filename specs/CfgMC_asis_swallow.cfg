\* the code as it is today, deviation CutPathSwallow: TLC must find Covers violated
CONSTANTS
  MinN = 4
  MaxN = 4
  Lens = {1}
  Flags = {"n"}
  MaxIns = 4
  MaxLinks = 0
  MaxRe = 0
  Wide = FALSE
  GenHist = FALSE
  Dev = {"CutPathSwallow"}
INIT Init
NEXT Next
INVARIANT Disjoint
INVARIANT Covers
INVARIANT FallThrough
INVARIANT NoRaise
INVARIANT NoOverlay
INVARIANT BlocksAreMaximalRuns
CHECK_DEADLOCK FALSE
