\* the code as it is today, deviations FirstBlockSwallow + AnonSplitEdge: TLC must find NoRaise violated
CONSTANTS
  MinN = 4
  MaxN = 4
  Lens = {1}
  Flags = {"n", "d"}
  MaxIns = 3
  MaxLinks = 0
  MaxRe = 0
  Wide = FALSE
  GenHist = FALSE
  Dev = {"FirstBlockSwallow", "AnonSplitEdge"}
INIT Init
NEXT Next
INVARIANT Disjoint
INVARIANT Covers
INVARIANT FallThrough
INVARIANT NoRaise
INVARIANT NoOverlay
INVARIANT BlocksAreMaximalRuns
CHECK_DEADLOCK FALSE
