--------------------------------- MODULE PeRef ---------------------------------
(***************************************************************************)
(* C14 / C15 (PE), reference binding and sample traces: like ElfRef.tla.   *)
(* TRACE_FILE: [t, bytes, ref] per line; ref = llvm-readobj's dump of the  *)
(* file ([lfanew, coff, opt, dirs, secs], numbers as digits; only the      *)
(* fields the tool prints).  Prints the verdict of the dump against        *)
(* Report(bytes), Report(bytes), the query answers and Image(bytes).       *)
(***************************************************************************)
EXTENDS Pe, Json, IOUtils

Files == ndJsonDeserialize(IOEnv.TRACE_FILE)
VARIABLES tid, done
vars == <<tid, done>>

BadFields(r, ref) == {n \in DOMAIN ref : ~EqD(r[n], ref[n])}
Verdict(R, ref) ==
  IF R.lfanew # ref.lfanew THEN "DOS.e_lfanew"
  ELSE IF BadFields(R.coff, ref.coff) # {} THEN "NT." \o (CHOOSE n \in BadFields(R.coff, ref.coff) : TRUE)
  ELSE IF BadFields(R.opt, ref.opt) # {} THEN "Opt." \o (CHOOSE n \in BadFields(R.opt, ref.opt) : TRUE)
  ELSE IF Len(R.dirs) # Len(ref.dirs) THEN "DataDirectory.count"
  ELSE IF \E k \in DOMAIN R.dirs : BadFields(R.dirs[k], ref.dirs[k]) # {} THEN "DataDirectory"
  ELSE IF Len(R.secs) # Len(ref.secs) THEN "Section.count"
  ELSE IF \E k \in DOMAIN R.secs : R.secs[k].Name # ref.secs[k].Name THEN "Section.Name"
  ELSE IF \E k \in DOMAIN R.secs : BadFields(R.secs[k], [n \in (DOMAIN ref.secs[k]) \ {"Name"} |-> ref.secs[k][n]]) # {}
       THEN LET k == CHOOSE k \in DOMAIN R.secs : BadFields(R.secs[k], [n \in (DOMAIN ref.secs[k]) \ {"Name"} |-> ref.secs[k][n]]) # {}
            IN "Section[" \o ToString(k - 1) \o "]." \o (CHOOSE n \in BadFields(R.secs[k], [n \in (DOMAIN ref.secs[k]) \ {"Name"} |-> ref.secs[k][n]]) : TRUE)
  ELSE "ok"

RECURSIVE SeqOfSet(_)
SeqOfSet(S) == IF S = {} THEN <<>> ELSE LET m == CHOOSE x \in S : TRUE IN <<m>> \o SeqOfSet(S \ {m})
QueryRvas(R) == {<<0, 0, 0, 0>>, R.opt.AddressOfEntryPoint, R.opt.SizeOfImage} \cup
  UNION {LET s == R.secs[i] IN
         { SubD(s.RVA, <<1>>), s.RVA, AddD(s.RVA, SubD(s.SizeOfRawData, <<1>>)), AddD(s.RVA, s.SizeOfRawData),
           AddD(s.RVA, SubD(s.VirtualSize, <<1>>)), AddD(s.RVA, s.VirtualSize) } : i \in DOMAIN R.secs}

Init == tid \in 1..Len(Files) /\ done = FALSE
Next == /\ ~done /\ done' = TRUE /\ UNCHANGED tid
        /\ LET f == Files[tid]  b == f.bytes IN
           IF ~IsPE(b) THEN PrintT(ToJson([t |-> f.t, verdict |-> "NotPE"]))
           ELSE LET R == Report(b)  Q == SeqOfSet(QueryRvas(R)) IN
                PrintT(ToJson([t |-> f.t, verdict |-> IF f.hasref THEN Verdict(R, f.ref) ELSE "noref", expect |-> R,
                               queries |-> Tup([k \in 1..Len(Q) |-> Query(R, Q[k])])]))
Spec == Init /\ [][Next]_vars
=============================================================================
