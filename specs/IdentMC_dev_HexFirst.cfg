\* self-test: the seeded fault HexFirst must be rejected (INVARIANT InvNoMisclaim)
CONSTANTS
  Dev = {"HexFirst"}
  Mode = "mc"
SPECIFICATION Spec
INVARIANT InvNoMisclaim
CHECK_DEADLOCK FALSE
