-------------------------------- MODULE X86 --------------------------------
(***************************************************************************)
(* C06, x86-64 part: the user-mode general-purpose integer subset at        *)
(* operand level, written from the Intel SDM vol. 2 instruction pages, over *)
(* specs/lib/BitVec.tla.  The specification is bound to the PROCESSOR, not  *)
(* to the manual: X86Trace.tla validates recorded native executions         *)
(* (harness/x86run.c, corpus/x86cpu) against SpecStep on every              *)
(* architecturally defined output.                                          *)
(*                                                                          *)
(*   state  s = [r   |-> 16 general registers, each 4 little-endian 16-bit  *)
(*                       limbs (rax rcx rdx rbx rsp rbp rsi rdi r8..r15),   *)
(*               fl  |-> [cf, pf, af, zf, sf, of, df |-> 0|1],              *)
(*               mem |-> the MEMN scratch bytes at address DATA]            *)
(*   form   f = [mn  |-> mnemonic (lower case, condition-code families as   *)
(*                       "setcc" "cmovcc" "jcc" + cc),                      *)
(*               sz  |-> operand size in bits, ssz |-> source size          *)
(*                       (movzx / movsx / movsxd),                          *)
(*               o1, o2, o3 |-> operands:                                   *)
(*                 [k |-> "r", n |-> 0..15, h |-> 1 for AH CH DH BH]        *)
(*                 [k |-> "m", b, x |-> base / index register or -1,        *)
(*                             sc |-> scale, d |-> displacement,            *)
(*                             a32 |-> 1: 32-bit addressing (prefix 67),    *)
(*                             rip |-> 1: RIP-relative]                     *)
(*                 [k |-> "i", v |-> immediate (integer)]                   *)
(*                 [k |-> "cl"]   [k |-> "n"] (absent),                     *)
(*               cc  |-> condition code 0..15]                              *)
(*   SpecStep(s, f, len, wit) = [r, fl, mem,                                *)
(*               rip   |-> next rip - address of the instruction,           *)
(*               undef |-> flags the architecture leaves undefined,         *)
(*               ur    |-> registers left undefined (BSF/BSR of zero),      *)
(*               fault |-> "" | "DE" (divide error) | "UNDEF" (the whole    *)
(*                         result is architecturally undefined)]            *)
(*                                                                          *)
(* Rules that differ per encoding and are therefore explicit: writes of a   *)
(* 32-bit register zero the upper half, 8/16-bit writes preserve the rest   *)
(* (WrReg); shift / rotate counts are masked with 31 (63 for 64-bit         *)
(* operands) and RCL/RCR of 8/16-bit operands rotate modulo size + 1;       *)
(* which flags are defined depends on mnemonic, size and count (undef);     *)
(* the condition-code table (Cond); effective addresses wrap at 64 bits     *)
(* (32 with the address-size prefix) and RIP-relative operands are relative *)
(* to the NEXT instruction.                                                 *)
(*                                                                          *)
(* AsmText(f) renders a form in Intel syntax; the bytes are produced from   *)
(* that text by llvm-mc when the corpus is built (corpus/x86enc).  Jcc      *)
(* forms carry their own bytes (JccBytes).                                  *)
(***************************************************************************)
EXTENDS BVWire, TLC

MEMN == 64
DataL == <<8192, 4096, 0, 0>>              \* 0x10002000: address of the scratch bytes
NextL == <<2048, 4096, 0, 0>>              \* 0x10000800: address of the instruction that follows
DataBV == FromLimbs(DataL, 64)
NextBV == FromLimbs(NextL, 64)
FlagNames == {"cf", "pf", "af", "zf", "sf", "of"}

(* integer (|v| < 2^31) -> two's complement bit-vector of width w *)
IntBV(v, w) == IF v >= 0 THEN NBits(v, w) ELSE Neg(NBits(-v, w))
Log2(n) == CASE n = 1 -> 0 [] n = 2 -> 1 [] n = 4 -> 2 [] n = 8 -> 3

-----------------------------------------------------------------------------
(* operands *)
RegBV(r, n) == FromLimbs(r[n + 1], 64)
RdReg(r, n, h, sz) == IF h = 1 THEN Slice(RegBV(r, n - 4), 8, 8) ELSE Trunc(RegBV(r, n), sz)
(* sub-register write rule *)
WrReg(r, n, h, sz, v) ==
  LET m == IF h = 1 THEN n - 4 ELSE n
      old == RegBV(r, m)
      new == CASE sz = 64 -> v
               [] sz = 32 -> Zext(v, 64)                                  \* upper half zeroed
               [] sz = 16 -> v \o Slice(old, 16, 48)                      \* rest preserved
               [] sz = 8 /\ h = 0 -> v \o Slice(old, 8, 56)
               [] sz = 8 /\ h = 1 -> Slice(old, 0, 8) \o v \o Slice(old, 16, 48)
  IN [r EXCEPT ![m + 1] = ToLimbs(new)]

(* 64-bit address arithmetic on the 4-limb wire format with TLC's integers (the bit-level Add of BitVec is two
   orders of magnitude slower under TLC and addresses are computed several times per vector); X86MC.cfg checks
   these operators against BitVec on boundary and random values *)
L4Add(a, b) ==
  LET s1 == a[1] + b[1]                  s2 == a[2] + b[2] + (s1 \div 65536)
      s3 == a[3] + b[3] + (s2 \div 65536) s4 == a[4] + b[4] + (s3 \div 65536)
  IN <<s1 % 65536, s2 % 65536, s3 % 65536, s4 % 65536>>
L4Neg(a) == L4Add(<<65535 - a[1], 65535 - a[2], 65535 - a[3], 65535 - a[4]>>, <<1, 0, 0, 0>>)
L4Sub(a, b) == L4Add(a, L4Neg(b))
L4Scale(a, k) ==                         \* k in {1, 2, 4, 8}
  LET p1 == a[1] * k                     p2 == a[2] * k + (p1 \div 65536)
      p3 == a[3] * k + (p2 \div 65536)   p4 == a[4] * k + (p3 \div 65536)
  IN <<p1 % 65536, p2 % 65536, p3 % 65536, p4 % 65536>>
L4Int(v) == IF v >= 0 THEN <<v % 65536, v \div 65536, 0, 0>> ELSE L4Neg(<<(-v) % 65536, (-v) \div 65536, 0, 0>>)

EAofL(r, m) ==
  LET base == IF m.rip = 1 THEN NextL ELSE IF m.b < 0 THEN <<0, 0, 0, 0>> ELSE r[m.b + 1]
      idx  == IF m.x < 0 THEN <<0, 0, 0, 0>> ELSE L4Scale(r[m.x + 1], m.sc)
      sum  == L4Add(L4Add(base, idx), L4Int(m.d))
  IN IF m.a32 = 1 THEN <<sum[1], sum[2], 0, 0>> ELSE sum
EAof(r, m) == FromLimbs(EAofL(r, m), 64)
(* offset of an n-byte access at address ea (limbs) inside the scratch bytes, -1 if not wholly inside *)
OffOf(ea, n) == LET o == L4Sub(ea, DataL) IN
                IF o[2] = 0 /\ o[3] = 0 /\ o[4] = 0 /\ o[1] <= MEMN - n THEN o[1] ELSE -1
RdMem(mem, ea, n) == LET o == OffOf(ea, n) IN BytesToBV(SubSeq(mem, o + 1, o + n))
WrMem(mem, ea, v) == LET n == Len(v) \div 8  o == OffOf(ea, n)  bs == BVToBytes(v) IN
                     [k \in 1..Len(mem) |-> IF k - 1 >= o /\ k - 1 < o + n THEN bs[k - o] ELSE mem[k]]

RdOp(s, o, sz) ==
  CASE o.k = "r" -> RdReg(s.r, o.n, o.h, sz)
    [] o.k = "m" -> RdMem(s.mem, EAofL(s.r, o), sz \div 8)
    [] o.k = "i" -> IntBV(o.v, sz)                       \* immediates are sign-extended to the operand size
    [] o.k = "cl" -> RdReg(s.r, 1, 0, sz)
(* the accesses of a form stay inside the scratch bytes (generator guard; also checked by X86Trace) *)
OpInside(s, o, sz) == o.k # "m" \/ OffOf(EAofL(s.r, o), sz \div 8) >= 0

(* post-state under construction; addresses are always computed from the PRE-state s *)
P0(s, len) == [r |-> s.r, fl |-> s.fl, mem |-> s.mem, rip |-> len, undef |-> {}, ur |-> {}, fault |-> ""]
WrOp(P, s, o, sz, v) ==
  CASE o.k = "r" -> [P EXCEPT !.r = WrReg(P.r, o.n, o.h, sz, v)]
    [] o.k = "m" -> [P EXCEPT !.mem = WrMem(P.mem, EAofL(s.r, o), v)]
SetFl(P, F, names) == [P EXCEPT !.fl = [n \in DOMAIN P.fl |-> IF n \in names THEN F[n] ELSE P.fl[n]]]
Undef(P, names) == [P EXCEPT !.undef = @ \cup names]

-----------------------------------------------------------------------------
(* flags *)
B(c) == IF c THEN 1 ELSE 0
Par(v) == B((v[1] + v[2] + v[3] + v[4] + v[5] + v[6] + v[7] + v[8]) % 2 = 0)
Res(res, cf, of, af) == [res |-> res, cf |-> cf, pf |-> Par(res), af |-> af, zf |-> B(IsZero(res)), sf |-> Msb(res), of |-> of]
AddF(a, b, c) == LET res == AddC(a, b, c) IN
  Res(res, CarryOut(a, b, c), B(Msb(a) = Msb(b) /\ Msb(res) # Msb(a)), (a[5] + b[5] + res[5]) % 2)
SubF(a, b, c) == LET res == AddC(a, Not(b), 1 - c) IN
  Res(res, 1 - CarryOut(a, Not(b), 1 - c), B(Msb(a) # Msb(b) /\ Msb(res) # Msb(a)), (a[5] + b[5] + res[5]) % 2)
LogicF(res) == Res(res, 0, 0, 0)

Cond(cc, fl) ==
  LET base == CASE cc \div 2 = 0 -> fl.of = 1                       \* O
                [] cc \div 2 = 1 -> fl.cf = 1                       \* B / C
                [] cc \div 2 = 2 -> fl.zf = 1                       \* Z / E
                [] cc \div 2 = 3 -> fl.cf = 1 \/ fl.zf = 1          \* BE
                [] cc \div 2 = 4 -> fl.sf = 1                       \* S
                [] cc \div 2 = 5 -> fl.pf = 1                       \* P
                [] cc \div 2 = 6 -> fl.sf # fl.of                   \* L
                [] cc \div 2 = 7 -> fl.zf = 1 \/ fl.sf # fl.of      \* LE
  IN IF cc % 2 = 0 THEN base ELSE ~base                               \* odd codes negate

-----------------------------------------------------------------------------
ALU2 == {"add", "adc", "sub", "sbb", "cmp", "and", "or", "xor", "test"}
SHIFTS == {"shl", "shr", "sar", "rol", "ror", "rcl", "rcr"}
Acc(sz) == [k |-> "r", n |-> 0, h |-> 0]
RDX == [k |-> "r", n |-> 2, h |-> 0]
AH == [k |-> "r", n |-> 4, h |-> 1]
AX == [k |-> "r", n |-> 0, h |-> 0]

Alu2(s, f, len) ==
  LET sz == f.sz  a == RdOp(s, f.o1, sz)  b == RdOp(s, f.o2, sz)  c == s.fl.cf
      F == CASE f.mn = "add" -> AddF(a, b, 0) [] f.mn = "adc" -> AddF(a, b, c)
             [] f.mn \in {"sub", "cmp"} -> SubF(a, b, 0) [] f.mn = "sbb" -> SubF(a, b, c)
             [] f.mn \in {"and", "test"} -> LogicF(And(a, b))
             [] f.mn = "or" -> LogicF(Or(a, b)) [] f.mn = "xor" -> LogicF(Xor(a, b))
      P1 == SetFl(P0(s, len), F, FlagNames)
      P2 == IF f.mn \in {"and", "or", "xor", "test"} THEN Undef(P1, {"af"}) ELSE P1
  IN IF f.mn \in {"cmp", "test"} THEN P2 ELSE WrOp(P2, s, f.o1, sz, F.res)

Unary(s, f, len) ==
  LET sz == f.sz  a == RdOp(s, f.o1, sz)
      F == CASE f.mn = "inc" -> AddF(a, One(sz), 0) [] f.mn = "dec" -> SubF(a, One(sz), 0)
             [] f.mn = "neg" -> SubF(Zero(sz), a, 0) [] f.mn = "not" -> LogicF(Not(a))
      names == CASE f.mn \in {"inc", "dec"} -> FlagNames \ {"cf"} [] f.mn = "neg" -> FlagNames [] OTHER -> {}
  IN WrOp(SetFl(P0(s, len), F, names), s, f.o1, sz, F.res)

Moves(s, f, len) ==
  LET sz == f.sz  P == P0(s, len) IN
  CASE f.mn = "mov" -> WrOp(P, s, f.o1, sz, RdOp(s, f.o2, sz))
    [] f.mn = "movzx" -> WrOp(P, s, f.o1, sz, Zext(RdOp(s, f.o2, f.ssz), sz))
    [] f.mn \in {"movsx", "movsxd"} -> WrOp(P, s, f.o1, sz, Sext(RdOp(s, f.o2, f.ssz), sz))
    [] f.mn = "lea" -> WrOp(P, s, f.o1, sz, Trunc(EAof(s.r, f.o2), sz))
    [] f.mn = "xchg" -> LET a == RdOp(s, f.o1, sz) b == RdOp(s, f.o2, sz) IN
                        WrOp(WrOp(P, s, f.o1, sz, b), s, f.o2, sz, a)
    [] f.mn = "xadd" -> LET a == RdOp(s, f.o1, sz) b == RdOp(s, f.o2, sz) F == AddF(a, b, 0) IN
                        \* TEMP := SRC + DEST; SRC := DEST; DEST := TEMP
                        WrOp(WrOp(SetFl(P, F, FlagNames), s, f.o2, sz, a), s, f.o1, sz, F.res)
    [] f.mn = "cmpxchg" ->
         LET acc == RdReg(s.r, 0, 0, sz)  d == RdOp(s, f.o1, sz)  b == RdOp(s, f.o2, sz)
             F == SubF(acc, d, 0)  Pf == SetFl(P, F, FlagNames) IN
         \* equal: destination := source; otherwise accumulator := destination (a register destination is NOT
         \* rewritten: its upper half survives a failed 32-bit compare - observed on the processor)
         IF acc = d THEN WrOp(Pf, s, f.o1, sz, b) ELSE WrOp(Pf, s, Acc(sz), sz, d)
    [] f.mn = "bswap" -> LET a == RdOp(s, f.o1, sz) n == sz \div 8 IN
         WrOp(P, s, f.o1, sz, [i \in 1..sz |-> a[8 * (n - 1 - ((i - 1) \div 8)) + ((i - 1) % 8) + 1]])
    [] f.mn = "push" ->
         LET v == RdOp(s, f.o1, sz)  sp == L4Sub(s.r[5], L4Int(sz \div 8)) IN
         [P EXCEPT !.r = [P.r EXCEPT ![5] = sp], !.mem = WrMem(P.mem, sp, v)]
    [] f.mn = "pop" ->
         LET sp == s.r[5]  v == RdMem(s.mem, sp, sz \div 8)
             P1 == [P EXCEPT !.r = [P.r EXCEPT ![5] = L4Add(sp, L4Int(sz \div 8))]] IN
         WrOp(P1, s, f.o1, sz, v)                                   \* rsp is incremented before the destination is written

Count(s, f) == LET raw == RdOp(s, f.o2, 8) IN BNat(Trunc(raw, IF f.sz = 64 THEN 6 ELSE 5))
Shift(s, f, len) ==
  LET sz == f.sz  a == RdOp(s, f.o1, sz)  c == Count(s, f)  cf == s.fl.cf  P == P0(s, len)
      Fin(res, ncf, nof, setszp, undefs) ==
        LET F == Res(res, ncf, nof, 0)
            P1 == SetFl(P, F, {"cf", "of"} \cup (IF setszp THEN {"sf", "zf", "pf"} ELSE {}))
            P2 == Undef(P1, undefs \cup (IF c # 1 THEN {"of"} ELSE {}))
        IN WrOp(P2, s, f.o1, sz, res)
      bit(v, i) == IF i >= 1 /\ i <= Len(v) THEN v[i] ELSE 0
  IN IF c = 0 THEN WrOp(P, s, f.o1, sz, a)        \* flags untouched; the destination is still written (r32: zero-extended)
     ELSE CASE f.mn = "shl" -> LET res == Shl(a, c) ncf == bit(a, sz - c + 1) IN
                               Fin(res, ncf, (Msb(res) + ncf) % 2, TRUE, {"af"} \cup (IF c >= sz THEN {"cf"} ELSE {}))
            [] f.mn = "shr" -> LET res == Lshr(a, c) IN
                               Fin(res, bit(a, c), Msb(a), TRUE, {"af"} \cup (IF c >= sz THEN {"cf"} ELSE {}))
            [] f.mn = "sar" -> LET res == Ashr(a, c) IN
                               Fin(res, IF c <= sz THEN a[c] ELSE Msb(a), 0, TRUE, {"af"})
            [] f.mn = "rol" -> LET res == Rol(a, c % sz) IN Fin(res, res[1], (Msb(res) + res[1]) % 2, FALSE, {})
            [] f.mn = "ror" -> LET res == Ror(a, c % sz) IN Fin(res, Msb(res), (Msb(res) + res[sz - 1]) % 2, FALSE, {})
            [] f.mn = "rcl" -> LET cm == IF sz < 32 THEN c % (sz + 1) ELSE c
                                   y == Rol(a \o <<cf>>, cm)  res == Trunc(y, sz) IN
                               Fin(res, y[sz + 1], (Msb(res) + y[sz + 1]) % 2, FALSE, {})
            [] f.mn = "rcr" -> LET cm == IF sz < 32 THEN c % (sz + 1) ELSE c
                                   y == Ror(a \o <<cf>>, cm)  res == Trunc(y, sz) IN
                               Fin(res, y[sz + 1], (Msb(a) + cf) % 2, FALSE, {})

DShift(s, f, len) ==      \* shld / shrd  o1, o2, count (o3: imm8 or cl)
  LET sz == f.sz  a == RdOp(s, f.o1, sz)  b == RdOp(s, f.o2, sz)  P == P0(s, len)
      c == BNat(Trunc(RdOp(s, f.o3, 8), IF sz = 64 THEN 6 ELSE 5))
      res == IF f.mn = "shld" THEN Or(Shl(a, c), Lshr(b, sz - c)) ELSE Or(Lshr(a, c), Shl(b, sz - c))
      ncf == IF f.mn = "shld" THEN a[sz - c + 1] ELSE a[c]
      F == Res(res, ncf, (Msb(res) + Msb(a)) % 2, 0)
  IN IF c = 0 THEN WrOp(P, s, f.o1, sz, a)               \* as for the shifts: no flag changes, r32 destination zero-extended
     ELSE IF c > sz THEN [P EXCEPT !.fault = "UNDEF"]       \* 16-bit operand, count > 16: result and flags undefined
     ELSE WrOp(Undef(SetFl(P, F, FlagNames), {"af"} \cup (IF c # 1 THEN {"of"} ELSE {})), s, f.o1, sz, res)

(* widening multiply on bytes with TLC's integers (schoolbook, column sums < 2^20); X86MC.cfg checks it against
   BitVec!Mul2U / Mul2S.  The signed product is the unsigned one corrected for the operands' signs. *)
RECURSIVE ColSum(_, _, _, _, _)
ColSum(A, Bv, k, i, acc) == IF i > Len(A) \/ i > k THEN acc
                            ELSE ColSum(A, Bv, k, i + 1, IF k - i + 1 <= Len(Bv) THEN acc + A[i] * Bv[k - i + 1] ELSE acc)
RECURSIVE Carry(_, _, _, _, _)
Carry(A, Bv, k, c, out) == IF k > 2 * Len(A) THEN out
                           ELSE LET t == ColSum(A, Bv, k, 1, 0) + c IN Carry(A, Bv, k + 1, t \div 256, Append(out, t % 256))
FMul2U(a, b) == BytesToBV(Carry(BVToBytes(a), BVToBytes(b), 1, 0, <<>>))
FMul2S(a, b) == LET w == Len(a)  p == FMul2U(a, b)
                    p1 == IF Msb(a) = 1 THEN Sub(p, Zero(w) \o b) ELSE p
                IN IF Msb(b) = 1 THEN Sub(p1, Zero(w) \o a) ELSE p1

MulDiv(s, f, len, wit) ==
  LET sz == f.sz  P == P0(s, len)
      lo(p) == Trunc(p, sz)  hi(p) == Slice(p, sz, sz)
      (* one-operand forms: accumulator pair; 8-bit: AX, otherwise rDX:rAX *)
      WrPair(Q, l, h) == IF sz = 8 THEN WrOp(Q, s, AX, 16, l \o h)
                         ELSE WrOp(WrOp(Q, s, Acc(sz), sz, l), s, RDX, sz, h)
      MF(p, ov) == Undef(SetFl(P, [cf |-> B(ov), of |-> B(ov), pf |-> 0, af |-> 0, zf |-> 0, sf |-> 0], {"cf", "of"}),
                         {"sf", "zf", "af", "pf"})
      DE == [P EXCEPT !.fault = "DE"]
  IN CASE f.mn = "mul" -> LET p == FMul2U(RdReg(s.r, 0, 0, sz), RdOp(s, f.o1, sz)) IN
                          WrPair(MF(p, ~IsZero(hi(p))), lo(p), hi(p))
       [] f.mn = "imul" /\ f.o2.k = "n" ->
            LET p == FMul2S(RdReg(s.r, 0, 0, sz), RdOp(s, f.o1, sz)) IN
            WrPair(MF(p, p # Sext(lo(p), 2 * sz)), lo(p), hi(p))
       [] f.mn = "imul" ->
            LET a == IF f.o3.k = "n" THEN RdOp(s, f.o1, sz) ELSE RdOp(s, f.o2, sz)
                b == IF f.o3.k = "n" THEN RdOp(s, f.o2, sz) ELSE RdOp(s, f.o3, sz)
                p == FMul2S(a, b) IN
            WrOp(MF(p, p # Sext(lo(p), 2 * sz)), s, f.o1, sz, lo(p))
       [] f.mn \in {"div", "idiv"} ->
            LET d == RdOp(s, f.o1, sz)
                n == IF sz = 8 THEN RdReg(s.r, 0, 0, 16) ELSE RdReg(s.r, 0, 0, sz) \o RdReg(s.r, 2, 0, sz)
                U == Undef(P, FlagNames)
                signed == f.mn = "idiv"
                \* does the quotient fit?  decided without dividing:
                \*   unsigned: iff the high half of the dividend is below the divisor
                \*   signed:   iff |n| < 2^(sz-1) |d|  (quotient >= 0)   or   |n| < (2^(sz-1) + 1) |d|  (quotient <= 0)
                ad == Zext(Abs(d), 2 * sz)
                lim == IF Msb(n) = Msb(d) THEN Shl(ad, sz - 1) ELSE Add(Shl(ad, sz - 1), ad)
                fits == IF signed THEN Ult(Abs(n), lim) ELSE Ult(hi(n), d)
                \* quotient and remainder.  For 32/64-bit operands the bit-level long division is too slow under
                \* TLC: division is specified as a RELATION and the processor's result (wit) is checked against it
                \*   n = q * d + r,  |r| < |d|,  r = 0 or sign(r) = sign(n)      (unique once the quotient fits)
                qr == IF wit = <<>> \/ sz <= 16
                      THEN (IF signed THEN <<lo(SDiv(n, Sext(d, 2 * sz))), lo(SRem(n, Sext(d, 2 * sz)))>>
                            ELSE LET u == UDivRem(n, Zext(d, 2 * sz)) IN <<lo(u[1]), Trunc(u[2], sz)>>)
                      ELSE LET q == Trunc(wit[1], sz)  r == Trunc(wit[2], sz) IN
                           IF signed
                           THEN (IF Add(FMul2S(q, d), Sext(r, 2 * sz)) = n /\ Ult(Abs(r), Abs(d))
                                    /\ (IsZero(r) \/ Msb(r) = Msb(n)) THEN <<q, r>> ELSE <<>>)
                           ELSE (IF Add(FMul2U(q, d), Zext(r, 2 * sz)) = n /\ Ult(r, d) THEN <<q, r>> ELSE <<>>)
            IN IF IsZero(d) \/ ~fits THEN DE
               ELSE IF qr = <<>> THEN [P EXCEPT !.fault = "WITNESS"]      \* the recorded quotient / remainder are wrong
               ELSE WrPair(U, qr[1], qr[2])

Bits(s, f, len) ==
  LET sz == f.sz  P == P0(s, len) IN
  CASE f.mn \in {"bt", "bts", "btr", "btc"} ->
         \* register or immediate bit offset taken modulo the operand size (memory + register offset not modelled)
         LET a == RdOp(s, f.o1, sz)
             i == BNat(Trunc(RdOp(s, f.o2, IF f.o2.k = "i" THEN 8 ELSE sz), Log2(sz \div 8) + 3))
             nb == CASE f.mn = "bts" -> 1 [] f.mn = "btr" -> 0 [] f.mn = "btc" -> 1 - a[i + 1] [] OTHER -> a[i + 1]
             P1 == Undef(SetFl(P, [cf |-> a[i + 1], pf |-> 0, af |-> 0, zf |-> 0, sf |-> 0, of |-> 0], {"cf"}),
                         {"of", "sf", "af", "pf"})
         IN IF f.mn = "bt" THEN P1 ELSE WrOp(P1, s, f.o1, sz, [a EXCEPT ![i + 1] = nb])
    [] f.mn \in {"bsf", "bsr"} ->
         LET b == RdOp(s, f.o2, sz)
             idx == IF f.mn = "bsf" THEN CHOOSE i \in 1..sz : b[i] = 1 /\ \A j \in 1..(i - 1) : b[j] = 0
                    ELSE CHOOSE i \in 1..sz : b[i] = 1 /\ \A j \in (i + 1)..sz : b[j] = 0
             P1 == Undef(SetFl(P, [cf |-> 0, pf |-> 0, af |-> 0, zf |-> B(IsZero(b)), sf |-> 0, of |-> 0], {"zf"}),
                         {"cf", "of", "sf", "af", "pf"})
         IN IF IsZero(b) THEN [P1 EXCEPT !.ur = {f.o1.n}]            \* destination undefined
            ELSE WrOp(P1, s, f.o1, sz, NBits(idx - 1, sz))

Conv(s, f, len) ==
  LET P == P0(s, len)  A(sz) == RdReg(s.r, 0, 0, sz)
      sign(sz) == IF Msb(A(sz)) = 1 THEN Ones(sz) ELSE Zero(sz) IN
  CASE f.mn = "cbw"  -> WrOp(P, s, Acc(16), 16, Sext(A(8), 16))
    [] f.mn = "cwde" -> WrOp(P, s, Acc(32), 32, Sext(A(16), 32))
    [] f.mn = "cdqe" -> WrOp(P, s, Acc(64), 64, Sext(A(32), 64))
    [] f.mn = "cwd"  -> WrOp(P, s, RDX, 16, sign(16))
    [] f.mn = "cdq"  -> WrOp(P, s, RDX, 32, sign(32))
    [] f.mn = "cqo"  -> WrOp(P, s, RDX, 64, sign(64))

CondOps(s, f, len) ==
  LET P == P0(s, len)  t == Cond(f.cc, s.fl) IN
  CASE f.mn = "setcc"  -> WrOp(P, s, f.o1, 8, NBits(B(t), 8))
    \* the destination register is written (a 32-bit one zero-extended) whether or not the condition holds
    [] f.mn = "cmovcc" -> WrOp(P, s, f.o1, f.sz, IF t THEN RdOp(s, f.o2, f.sz) ELSE RdOp(s, f.o1, f.sz))
    [] f.mn = "jcc"    -> [P EXCEPT !.rip = IF t THEN len + f.o1.v ELSE len]

FlagOps(s, f, len) ==
  LET P == P0(s, len)  fl == s.fl IN
  CASE f.mn = "stc" -> [P EXCEPT !.fl.cf = 1]
    [] f.mn = "clc" -> [P EXCEPT !.fl.cf = 0]
    [] f.mn = "cmc" -> [P EXCEPT !.fl.cf = 1 - fl.cf]
    [] f.mn = "std" -> [P EXCEPT !.fl.df = 1]
    [] f.mn = "cld" -> [P EXCEPT !.fl.df = 0]
    [] f.mn = "lahf" -> WrOp(P, s, AH, 8, <<fl.cf, 1, fl.pf, 0, fl.af, 0, fl.zf, fl.sf>>)
    [] f.mn = "sahf" -> LET a == RdReg(s.r, 4, 1, 8) IN
                        [P EXCEPT !.fl = [fl EXCEPT !.cf = a[1], !.pf = a[3], !.af = a[5], !.zf = a[7], !.sf = a[8]]]

(* wit: <<>> or <<rax, rdx>> of a recorded execution, used only as the witness of 32/64-bit divisions *)
SpecStep(s, f, len, wit) ==
  CASE f.mn \in ALU2 -> Alu2(s, f, len)
    [] f.mn \in {"inc", "dec", "neg", "not"} -> Unary(s, f, len)
    [] f.mn \in {"mov", "movzx", "movsx", "movsxd", "lea", "xchg", "xadd", "cmpxchg", "bswap", "push", "pop"} -> Moves(s, f, len)
    [] f.mn \in SHIFTS -> Shift(s, f, len)
    [] f.mn \in {"shld", "shrd"} -> DShift(s, f, len)
    [] f.mn \in {"mul", "imul", "div", "idiv"} -> MulDiv(s, f, len, wit)
    [] f.mn \in {"bt", "bts", "btr", "btc", "bsf", "bsr"} -> Bits(s, f, len)
    [] f.mn \in {"cbw", "cwde", "cdqe", "cwd", "cdq", "cqo"} -> Conv(s, f, len)
    [] f.mn \in {"setcc", "cmovcc", "jcc"} -> CondOps(s, f, len)
    [] f.mn \in {"stc", "clc", "cmc", "std", "cld", "lahf", "sahf"} -> FlagOps(s, f, len)
Mnemonics == ALU2 \cup SHIFTS \cup
  {"inc", "dec", "neg", "not", "mov", "movzx", "movsx", "movsxd", "lea", "xchg", "xadd", "cmpxchg", "bswap", "push", "pop",
   "shld", "shrd", "mul", "imul", "div", "idiv", "bt", "bts", "btr", "btc", "bsf", "bsr",
   "cbw", "cwde", "cdqe", "cwd", "cdq", "cqo", "setcc", "cmovcc", "jcc", "stc", "clc", "cmc", "std", "cld", "lahf", "sahf"}

(* every memory access of the form lies inside the scratch bytes *)
Inside(s, f) ==
  /\ OpInside(s, f.o1, IF f.mn = "setcc" THEN 8 ELSE f.sz)
  /\ (f.mn = "lea" \/ OpInside(s, f.o2, IF f.mn \in {"movzx", "movsx", "movsxd"} THEN f.ssz ELSE f.sz))
  /\ (f.mn = "push" => OffOf(L4Sub(s.r[5], L4Int(f.sz \div 8)), f.sz \div 8) >= 0)
  /\ (f.mn = "pop" => OffOf(s.r[5], f.sz \div 8) >= 0)

-----------------------------------------------------------------------------
(* Intel-syntax text of a form (input of llvm-mc) *)
R64 == <<"rax", "rcx", "rdx", "rbx", "rsp", "rbp", "rsi", "rdi", "r8", "r9", "r10", "r11", "r12", "r13", "r14", "r15">>
R32 == <<"eax", "ecx", "edx", "ebx", "esp", "ebp", "esi", "edi", "r8d", "r9d", "r10d", "r11d", "r12d", "r13d", "r14d", "r15d">>
R16 == <<"ax", "cx", "dx", "bx", "sp", "bp", "si", "di", "r8w", "r9w", "r10w", "r11w", "r12w", "r13w", "r14w", "r15w">>
R8  == <<"al", "cl", "dl", "bl", "spl", "bpl", "sil", "dil", "r8b", "r9b", "r10b", "r11b", "r12b", "r13b", "r14b", "r15b">>
R8H == <<"ah", "ch", "dh", "bh">>
CCName == <<"o", "no", "b", "ae", "e", "ne", "be", "a", "s", "ns", "p", "np", "l", "ge", "le", "g">>
RegName(n, h, sz) == IF h = 1 THEN R8H[n - 3]
                     ELSE CASE sz = 64 -> R64[n + 1] [] sz = 32 -> R32[n + 1] [] sz = 16 -> R16[n + 1] [] sz = 8 -> R8[n + 1]
PtrName(sz) == CASE sz = 8 -> "byte" [] sz = 16 -> "word" [] sz = 32 -> "dword" [] sz = 64 -> "qword"
Num(v) == IF v < 0 THEN "-" \o ToString(-v) ELSE ToString(v)
MemText(m, sz) ==
  LET rn(n) == IF m.a32 = 1 THEN R32[n + 1] ELSE R64[n + 1]
      b == IF m.rip = 1 THEN "rip" ELSE IF m.b < 0 THEN "" ELSE rn(m.b)
      x == IF m.x < 0 THEN "" ELSE (IF b = "" THEN "" ELSE " + ") \o ToString(m.sc) \o "*" \o rn(m.x)
      d == IF m.d = 0 /\ (b # "" \/ x # "") THEN ""
           ELSE IF b = "" /\ x = "" THEN Num(m.d)
           ELSE IF m.d < 0 THEN " - " \o ToString(-m.d) ELSE " + " \o ToString(m.d)
  IN PtrName(sz) \o " ptr [" \o b \o x \o d \o "]"
OpText(o, sz) == CASE o.k = "r" -> RegName(o.n, o.h, sz) [] o.k = "m" -> MemText(o, sz)
                   [] o.k = "i" -> Num(o.v) [] o.k = "cl" -> "cl"
AsmText(f) ==
  LET mn == CASE f.mn = "setcc" -> "set" \o CCName[f.cc + 1] [] f.mn = "cmovcc" -> "cmov" \o CCName[f.cc + 1]
              [] f.mn = "jcc" -> "j" \o CCName[f.cc + 1] [] OTHER -> f.mn
      s2 == IF f.mn \in {"movzx", "movsx", "movsxd"} THEN f.ssz
            ELSE IF f.mn \in SHIFTS \/ (f.mn \in {"bt", "bts", "btr", "btc"} /\ f.o2.k = "i") THEN 8 ELSE f.sz
      s1 == IF f.mn = "setcc" THEN 8 ELSE f.sz
  IN IF f.o1.k = "n" THEN mn
     ELSE IF f.o2.k = "n" THEN mn \o " " \o OpText(f.o1, s1)
     ELSE IF f.o3.k = "n" THEN mn \o " " \o OpText(f.o1, s1) \o ", " \o OpText(f.o2, s2)
     ELSE mn \o " " \o OpText(f.o1, s1) \o ", " \o OpText(f.o2, s2) \o ", " \o OpText(f.o3, IF f.o3.k = "i" THEN 8 ELSE f.sz)
(* Jcc: 70+cc rel8 / 0F 80+cc rel32 *)
JccBytes(cc, rel, long) ==
  IF long THEN <<15, 128 + cc>> \o BVToBytes(IntBV(rel, 32)) ELSE <<112 + cc>> \o BVToBytes(IntBV(rel, 8))
=============================================================================
